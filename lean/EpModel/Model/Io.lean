import EpModel.Model.Codec.LinkEth
import EpModel.Model.Codec.LinkArp
import EpModel.Model.Codec.TpUdpTcp
import EpModel.Model.Codec.TpIcmp
import EpModel.Model.Codec.NetIpv6
import EpModel.Model.Codec.NetIpv6Frag
import EpModel.Model.Codec.NetIpv4
import EpModel.Model.Codec.NetAuth
import EpModel.Model.Codec.NetRawExt
import EpModel.Model.Codec.NetIpv4Exts
/-
  I/O fault model (C16, family `io`), following the Rust code as written:

    writer.rs                      CoreWrite / IoWriter (`std::io::Write::write_all`) / SliceCoreWrite
    io/limited_reader.rs           LimitedReader (new, start_layer, read_exact, take_reader)
    every `write` / `write_raw` / `write_to_slice` / `read` / `read_limited` of the header types
    (link/*.rs, net/*.rs, transport/*.rs), Ipv4Extensions / Ipv6Extensions / IpHeaders

  * a writer is `{budget, out}`: `writeAll` accepts what fits into the budget and then fails — the
    behaviour of `write_all` over a writer that accepts exactly `k` bytes and then returns an error;
  * a serialiser is the *sequence of `write_all` calls* it makes (`parts`) plus the content error it
    returns behind the last write, if any (`fin`): every error in the crate is an early `return`, and
    no decision of a serialiser depends on the writer, so this describes `write` completely;
  * a reader is `{data, pos, failAt}`; a `read` function is a *read program* (`RProg`): the sequence
    of `read_exact` sizes, each of which may depend on the bytes read so far;
  * `LimitedReader` is `Limited`, a limited read program is `LProg` (`read_exact` and
    `start_layer` calls); arithmetic underflow (`max_len - read_len`, `max_len -= read_len`) is an
    explicit `panicked` flag.
  The complete encodings (`toBytes`) and the value types are those of the C08 codec models.
-/
namespace EpModel.Io
open EpModel

/-! ## `std::io::Error` as far as it is observable here -/

inductive IoError where
  /-- the error the failing reader / writer was told to return -/
  | injected
  /-- `read_exact` on a reader that reports end of file (`ErrorKind::UnexpectedEof`) -/
  | unexpectedEof
deriving DecidableEq, Repr

def IoError.render : IoError → String
  | .injected => "err(io)"
  | .unexpectedEof => "err(eof)"

/-! ## failing writer -/

/-- a `std::io::Write` that accepts exactly `budget` bytes in total (`none`: any number) and then
    fails; `out` is every byte it accepted. -/
structure Writer where
  budget : Option Nat
  out : Bytes
deriving DecidableEq, Repr

def Writer.failingAt (k : Nat) : Writer := { budget := some k, out := [] }
def Writer.unlimited : Writer := { budget := none, out := [] }

/-- `std::io::Write::write_all(buf)`: loops over `write` until everything is accepted or a call
    fails; an empty buffer makes no call at all. -/
def Writer.writeAll (w : Writer) (b : Bytes) : Writer × Except IoError Unit :=
  match w.budget with
  | none => ({ budget := none, out := w.out ++ b }, .ok ())
  | some n =>
    if b.length ≤ n then ({ budget := some (n - b.length), out := w.out ++ b }, .ok ())
    else ({ budget := some 0, out := w.out ++ b.take n }, .error .injected)

/-- a sequence of `write_all(..)?` calls. -/
def writeParts : List Bytes → Writer → Writer × Except IoError Unit
  | [], w => (w, .ok ())
  | p :: ps, w =>
    match w.writeAll p with
    | (w', .ok ()) => writeParts ps w'
    | (w', .error e) => (w', .error e)

/-- a serialiser: the `write_all` calls it makes, in order, and the content error it returns
    behind the last of them (if any). -/
structure Ser (ε : Type) where
  parts : List Bytes
  fin : Except ε Unit

inductive WErr (ε : Type) where
  | io (e : IoError)
  | content (e : ε)
deriving Repr

/-- running a serialiser against a writer. -/
def Ser.run {ε : Type} (s : Ser ε) (w : Writer) : Writer × Except (WErr ε) Unit :=
  match writeParts s.parts w with
  | (w', .error e) => (w', .error (.io e))
  | (w', .ok ()) =>
    (w', match s.fin with
         | .ok () => .ok ()
         | .error c => .error (.content c))

/-- a serialiser that cannot fail on its own. -/
def Ser.plain (parts : List Bytes) : Ser Empty := { parts := parts, fin := .ok () }

/-- the complete output (what an unlimited writer receives). -/
def Ser.full {ε : Type} (s : Ser ε) : Bytes := s.parts.flatten

/-! ## slice writers -/

/-- `SliceCoreWriteError` -/
structure SliceErr where
  required : Nat
  len : Nat
deriving DecidableEq, Repr

/-- `SliceCoreWrite { buf, pos }`; `buf` is the content of the slice (`cap = buf.length`). -/
structure SliceWriter where
  buf : Bytes
  pos : Nat
deriving DecidableEq, Repr

def SliceWriter.cap (s : SliceWriter) : Nat := s.buf.length

/-- `SliceCoreWrite::write_all`: `required_len = pos + slice.len()` (saturating; lengths of existing
    slices do not overflow), `buf.get_mut(pos..)` then `.get_mut(..slice.len())`, `copy_from_slice`.
    Nothing is copied when the part does not fit. -/
def SliceWriter.writeAll (s : SliceWriter) (b : Bytes) : SliceWriter × Except SliceErr Unit :=
  if s.pos ≤ s.buf.length ∧ b.length ≤ s.buf.length - s.pos then
    ({ buf := s.buf.take s.pos ++ b ++ s.buf.drop (s.pos + b.length), pos := s.pos + b.length },
     .ok ())
  else (s, .error { required := s.pos + b.length, len := s.buf.length })

def sliceParts : List Bytes → SliceWriter → SliceWriter × Except SliceErr Unit
  | [], s => (s, .ok ())
  | p :: ps, s =>
    match s.writeAll p with
    | (s', .ok ()) => sliceParts ps s'
    | (s', .error e) => (s', .error e)

/-- `err::SliceWriteSpaceError` -/
structure SpaceErr where
  required : Nat
  len : Nat
  layer : String
  off : Nat
deriving DecidableEq, Repr

def SpaceErr.render (e : SpaceErr) : String :=
  s!"err(space(req={e.required},len={e.len},layer={e.layer},off={e.off}))"

/-- `Ethernet2Header::write_to_slice` / `LinuxSllHeader::write_to_slice` on a slice with content
    `buf`: length check against the constant `LEN`, then `slice[..LEN].copy_from_slice(&to_bytes())`;
    result: length of the returned unused part. -/
def headerWriteToSlice (len : Nat) (layer : String) (bytes : Bytes) (buf : Bytes) :
    Bytes × Except SpaceErr Nat :=
  if buf.length < len then
    (buf, .error { required := len, len := buf.length, layer := layer, off := 0 })
  else (bytes ++ buf.drop len, .ok (buf.length - len))

def eth2WriteToSlice (h : Codec.Eth2) (buf : Bytes) : Bytes × Except SpaceErr Nat :=
  headerWriteToSlice 14 "Ethernet2Header" (Codec.Eth2.toBytes h) buf

def sllWriteToSlice (h : Codec.Sll) (buf : Bytes) : Bytes × Except SpaceErr Nat :=
  headerWriteToSlice 16 "LinuxSllHeader" (Codec.Sll.toBytes h) buf

/-- `err::packet::BuildSliceWriteError` as far as the I/O path is concerned. -/
inductive BuildSliceErr (ε : Type) where
  | space (required : Nat)
  | content (e : ε)
deriving Repr

/-- `final_write_to_slice` (packet_builder.rs): `required = final_size(..)`,
    `buffer.get_mut(..required).ok_or(Space(required))?`, `SliceCoreWrite::new(slice)`, the parts
    (`From<SliceCoreWriteError>`: `Space(err.required_len)`), `Ok(required)`.
    Result: the buffer content afterwards and the returned value. -/
def buildWriteToSlice {ε : Type} (s : Ser ε) (required : Nat) (buf : Bytes) :
    Bytes × Except (BuildSliceErr ε) Nat :=
  if buf.length < required then (buf, .error (.space required))
  else
    match sliceParts s.parts { buf := buf.take required, pos := 0 } with
    | (w, .error e) => (w.buf ++ buf.drop required, .error (.space e.required))
    | (w, .ok ()) =>
      (w.buf ++ buf.drop required,
       match s.fin with
       | .ok () => .ok required
       | .error c => .error (.content c))

/-! ## failing reader -/

/-- a `std::io::Read` over `data` that fails once `failAt` bytes were handed out (`none`: never);
    behind the end of the data it reports end of file. -/
structure Reader where
  data : Bytes
  pos : Nat
  failAt : Option Nat
deriving DecidableEq, Repr

/-- number of bytes the reader can hand out at all. -/
def Reader.limit (r : Reader) : Nat :=
  match r.failAt with
  | none => r.data.length
  | some k => min k r.data.length

/-- what `read_exact` reports when the reader runs dry. -/
def Reader.dryError (r : Reader) : IoError :=
  match r.failAt with
  | none => .unexpectedEof
  | some k => if k ≤ r.data.length then .injected else .unexpectedEof

/-- `std::io::Read::read_exact(buf)` with `buf.len() = n`: loops over `read` until the buffer is
    full; everything available is consumed before the error; an empty buffer makes no call. -/
def Reader.readExact (r : Reader) (n : Nat) : Reader × Except IoError Bytes :=
  if n = 0 then (r, .ok [])
  else if r.pos + n ≤ r.limit then
    ({ data := r.data, pos := r.pos + n, failAt := r.failAt }, .ok (sub r.data r.pos n))
  else ({ data := r.data, pos := max r.pos r.limit, failAt := r.failAt }, .error r.dryError)

/-- errors of a `read`: the I/O error, or a content / length error (canonical text). -/
inductive RErr where
  | io (e : IoError)
  | other (rendered : String)
deriving DecidableEq, Repr

def RErr.render : RErr → String
  | .io e => e.render
  | .other s => s

/-- a read program: the `read_exact` calls of a `read` function; each size may depend on the bytes
    read before; `done` is the returned value or the content error. -/
inductive RProg (α : Type) where
  | done (r : Except String α)
  | read (n : Nat) (k : Bytes → RProg α)

def RProg.run {α : Type} : RProg α → Reader → Reader × Except RErr α
  | .done (.ok a), r => (r, .ok a)
  | .done (.error s), r => (r, .error (.other s))
  | .read n k, r =>
    match r.readExact n with
    | (r', .ok b) => (k b).run r'
    | (r', .error e) => (r', .error (.io e))

def RProg.bind {α β : Type} : RProg α → (α → RProg β) → RProg β
  | .done (.ok a), f => f a
  | .done (.error s), _ => .done (.error s)
  | .read n k, f => .read n (fun b => (k b).bind f)

/-- `read_exact` of a fixed size, returning the bytes. -/
def readN (n : Nat) : RProg Bytes := .read n fun b => .done (.ok b)

/-! ## LimitedReader -/

/-- `err::LenError` -/
structure LenErr where
  required : Nat
  len : Nat
  src : String
  layer : String
  off : Nat
deriving DecidableEq, Repr

def LenErr.render (e : LenErr) : String :=
  s!"err(len(req={e.required},len={e.len},src={e.src},layer={e.layer},off={e.off}))"

/-- `io::LimitedReader<T>` around the failing reader.  `panicked`: an arithmetic underflow
    (`attempt to subtract with overflow`) happened. -/
structure Limited where
  inner : Reader
  maxLen : Nat
  lenSource : String
  layer : String
  layerOffset : Nat
  readLen : Nat
  panicked : Bool
deriving DecidableEq, Repr

/-- `LimitedReader::new` -/
def Limited.new (inner : Reader) (maxLen : Nat) (lenSource : String) (layerOffset : Nat)
    (layer : String) : Limited :=
  { inner := inner, maxLen := maxLen, lenSource := lenSource, layer := layer,
    layerOffset := layerOffset, readLen := 0, panicked := false }

/-- `LimitedReader::start_layer`: `layer_offset += read_len; max_len -= read_len; read_len = 0;
    layer = layer`. -/
def Limited.startLayer (l : Limited) (layer : String) : Limited :=
  if l.readLen ≤ l.maxLen then
    { inner := l.inner, maxLen := l.maxLen - l.readLen, lenSource := l.lenSource, layer := layer,
      layerOffset := l.layerOffset + l.readLen, readLen := 0, panicked := l.panicked }
  else
    { inner := l.inner, maxLen := l.maxLen, lenSource := l.lenSource, layer := l.layer,
      layerOffset := l.layerOffset + l.readLen, readLen := l.readLen, panicked := true }

inductive LErr where
  | io (e : IoError)
  | len (e : LenErr)
  | other (rendered : String)
  | panic
deriving DecidableEq, Repr

def LErr.render : LErr → String
  | .io e => e.render
  | .len e => e.render
  | .other s => s
  | .panic => "panic"

/-- `LimitedReader::read_exact(buf)` with `buf.len() = n`. -/
def Limited.readExact (l : Limited) (n : Nat) : Limited × Except LErr Bytes :=
  if l.maxLen < l.readLen then
    ({ inner := l.inner, maxLen := l.maxLen, lenSource := l.lenSource, layer := l.layer,
       layerOffset := l.layerOffset, readLen := l.readLen, panicked := true }, .error .panic)
  else if l.maxLen - l.readLen < n then
    (l, .error (.len { required := l.readLen + n, len := l.maxLen, src := l.lenSource,
                       layer := l.layer, off := l.layerOffset }))
  else
    match l.inner.readExact n with
    | (r', .ok b) =>
      ({ inner := r', maxLen := l.maxLen, lenSource := l.lenSource, layer := l.layer,
         layerOffset := l.layerOffset, readLen := l.readLen + n, panicked := l.panicked }, .ok b)
    | (r', .error e) =>
      ({ inner := r', maxLen := l.maxLen, lenSource := l.lenSource, layer := l.layer,
         layerOffset := l.layerOffset, readLen := l.readLen, panicked := l.panicked },
       .error (.io e))

/-- a limited read program: `read_exact` and `start_layer` calls, adaptively. -/
inductive LProg (α : Type) where
  | done (r : Except String α)
  | read (n : Nat) (k : Bytes → LProg α)
  | start (layer : String) (k : LProg α)

def LProg.run {α : Type} : LProg α → Limited → Limited × Except LErr α
  | .done (.ok a), l => (l, .ok a)
  | .done (.error s), l => (l, .error (.other s))
  | .read n k, l =>
    match l.readExact n with
    | (l', .ok b) => (k b).run l'
    | (l', .error e) => (l', .error e)
  | .start layer k, l =>
    let l' := l.startLayer layer
    if l'.panicked then (l', .error .panic) else k.run l'

def LProg.bind {α β : Type} : LProg α → (α → LProg β) → LProg β
  | .done (.ok a), f => f a
  | .done (.error s), _ => .done (.error s)
  | .read n k, f => .read n (fun b => (k b).bind f)
  | .start layer k, f => .start layer (k.bind f)

/-! ## the serialisers, as parts -/

namespace Parts
open EpModel.Codec EpModel.CodecNet

/-- one `write_all(&self.to_bytes())`: Ethernet2Header, SingleVlanHeader, LinuxSllHeader,
    MacsecHeader, ArpPacket, Ipv6Header, Ipv6FragmentHeader, UdpHeader, Icmpv4Header, Icmpv6Header. -/
def eth2 (h : Eth2) : List Bytes := [h.toBytes]
def vlan (h : Vlan) : List Bytes := [h.toBytes]
def sll (h : Sll) : List Bytes := [h.toBytes]
def macsec (h : Macsec) : List Bytes := [h.toBytes]
def arp (h : Arp) : List Bytes := [h.toBytes]
def ipv6 (h : Ipv6Header) : List Bytes := [h.toBytes]
def ipv6frag (h : Ipv6FragmentHeader) : List Bytes := [h.toBytes]
def udp (h : Udp) : List Bytes := [h.toBytes]
def icmpv4 (h : Icmp4) : List Bytes := [h.toBytes]
def icmpv6 (h : Icmp6) : List Bytes := [h.toBytes]

/-- `Ipv4Header::write_ipv4_header_internal`: the 20 fixed bytes, then `&self.options`
    (a `write_all` of an empty slice makes no call, so an empty second part is harmless). -/
def ipv4Internal (h : Ipv4Header) (cks : Nat) : List Bytes := [h.fixedPart cks, h.options]
/-- `Ipv4Header::write` (checksum recomputed) -/
def ipv4 (h : Ipv4Header) : List Bytes := ipv4Internal h h.calcHeaderChecksum
/-- `Ipv4Header::write_raw` (stored checksum) -/
def ipv4raw (h : Ipv4Header) : List Bytes := ipv4Internal h h.headerChecksum

/-- `IpAuthHeader::write`: the 12 fixed bytes, then `raw_icv()`. -/
def auth (h : IpAuthHeader) : List Bytes := [h.fixedPart, h.rawIcvAcc]

/-- `Ipv6RawExtHeader::write`: `[next_header, header_length]`, then `payload()`. -/
def rawext (h : Ipv6RawExtHeader) : List Bytes :=
  [[u8 h.nextHeader, u8 h.headerLength], h.payloadAcc]

/-- `TcpHeader::write`: the 20 fixed bytes, then the options if there are any. -/
def tcp (h : Tcp) : List Bytes :=
  if h.opts.asSlice.isEmpty then [h.fixed] else [h.fixed, h.opts.asSlice]

/-- `Ipv4Extensions::write` / `write_internal`: the authentication header as *one* part
    (`header.to_bytes()`), or `ExtNotReferenced` without writing. -/
def ipv4exts (e : Ipv4Extensions) (start : Nat) : Ser Ipv4ExtsWalkError :=
  match e.auth with
  | some h =>
    if ipNumberAuth = start then { parts := [h.toBytes], fin := .ok () }
    else { parts := [], fin := .error (.extNotReferenced ipNumberAuth) }
  | none => { parts := [], fin := .ok () }

end Parts

/-! ### Ipv6Extensions -/

open EpModel.CodecNet in
/-- `Ipv6Extensions` (`routing` = routing header and the final destination options behind it). -/
structure Ipv6Exts where
  hbh : Option Ipv6RawExtHeader
  dst : Option Ipv6RawExtHeader
  rt : Option (Ipv6RawExtHeader × Option Ipv6RawExtHeader)
  frag : Option Ipv6FragmentHeader
  auth : Option IpAuthHeader
deriving Repr

inductive ExtKind where
  | hbh | dst | rt | frag | auth | fdst
deriving DecidableEq, Repr

/-- err::ipv6_exts::ExtsWalkError; `panicUnwrap`: an `.unwrap()` of `write_internal` on `None`. -/
inductive Ipv6WalkErr where
  | hopByHopNotAtStart
  | extNotReferenced (missing : Nat)
  | panicUnwrap
deriving DecidableEq, Repr

namespace Ipv6Exts
open EpModel.CodecNet

/-- serialised form and `next_header` of the stored header of a kind. -/
def get (e : Ipv6Exts) : ExtKind → Option (Bytes × Nat)
  | .hbh => e.hbh.map fun h => (h.toBytes, h.nextHeader)
  | .dst => e.dst.map fun h => (h.toBytes, h.nextHeader)
  | .rt => e.rt.map fun p => (p.1.toBytes, p.1.nextHeader)
  | .frag => e.frag.map fun h => (h.toBytes, h.nextHeader)
  | .auth => e.auth.map fun h => (h.toBytes, h.nextHeader)
  | .fdst => match e.rt with
    | some (_, some h) => some (h.toBytes, h.nextHeader)
    | _ => none

/-- the `NeedsWrite` flags that start out `true`. -/
def present (e : Ipv6Exts) : List ExtKind :=
  [ExtKind.hbh, .dst, .rt, .frag, .auth, .fdst].filter fun k => (e.get k).isSome

/-- the `ExtNotReferenced` cascade behind the loop. -/
def notReferenced (needs : List ExtKind) : Except Ipv6WalkErr Unit :=
  if .hbh ∈ needs then .error (.extNotReferenced 0)
  else if .dst ∈ needs then .error (.extNotReferenced 60)
  else if .rt ∈ needs then .error (.extNotReferenced 43)
  else if .frag ∈ needs then .error (.extNotReferenced 44)
  else if .auth ∈ needs then .error (.extNotReferenced 51)
  else if .fdst ∈ needs then .error (.extNotReferenced 60)
  else .ok ()

/-- which header the loop of `write_internal` writes for `next_header`, if any:
    `none` = `break`. -/
def pick (next : Nat) (routeWritten : Bool) (needs : List ExtKind) : Option {k : ExtKind // k ∈ needs} :=
  if next = 60 then
    (if routeWritten then (if h : .fdst ∈ needs then some ⟨.fdst, h⟩ else none)
     else if h : .dst ∈ needs then some ⟨.dst, h⟩ else none)
  else if next = 43 then (if h : .rt ∈ needs then some ⟨.rt, h⟩ else none)
  else if next = 44 then (if h : .frag ∈ needs then some ⟨.frag, h⟩ else none)
  else if next = 51 then (if h : .auth ∈ needs then some ⟨.auth, h⟩ else none)
  else none

/-- the `loop` of `Ipv6Extensions::write_internal`: parts written so far in `acc`. -/
def walkLoop (e : Ipv6Exts) (next : Nat) (routeWritten : Bool) (needs : List ExtKind)
    (acc : List Bytes) : Ser Ipv6WalkErr :=
  if next = 0 then
    (if .hbh ∈ needs then { parts := acc, fin := .error .hopByHopNotAtStart }
     else { parts := acc, fin := notReferenced needs })
  else
    match pick next routeWritten needs with
    | none => { parts := acc, fin := notReferenced needs }
    | some ⟨k, hm⟩ =>
      match e.get k with
      | none => { parts := acc, fin := .error .panicUnwrap }
      | some (bytes, nh) =>
        walkLoop e nh (routeWritten || k == .rt) (needs.erase k) (acc ++ [bytes])
termination_by needs.length
decreasing_by
  rw [List.length_erase_of_mem hm]
  have := List.length_pos_of_mem hm
  omega

/-- `Ipv6Extensions::write` / `write_internal`. -/
def ser (e : Ipv6Exts) (first : Nat) : Ser Ipv6WalkErr :=
  if first = 0 then
    match e.hbh with
    | some h => walkLoop e h.nextHeader false ((present e).erase .hbh) [h.toBytes]
    | none => walkLoop e first false (present e) []
  else walkLoop e first false (present e) []

end Ipv6Exts

/-! ### IpHeaders -/

open EpModel.CodecNet in
inductive IpHdrs where
  | v4 (h : Ipv4Header) (e : Ipv4Extensions)
  | v6 (h : Ipv6Header) (e : Ipv6Exts)

inductive IpHdrsWErr where
  | ipv4Exts (e : CodecNet.Ipv4ExtsWalkError)
  | ipv6Exts (e : Ipv6WalkErr)

/-- `IpHeaders::write`: `header.write(writer)` then `extensions.write(writer, protocol)`. -/
def IpHdrs.ser : IpHdrs → Ser IpHdrsWErr
  | .v4 h e =>
    let s := Parts.ipv4exts e h.protocol
    { parts := Parts.ipv4 h ++ s.parts, fin := s.fin.mapError .ipv4Exts }
  | .v6 h e =>
    let s := e.ser h.nextHeader
    { parts := Parts.ipv6 h ++ s.parts, fin := s.fin.mapError .ipv6Exts }

/-! ## the readers, as read programs (result: the gathered bytes) -/

namespace Reads
open EpModel.Codec

/-- `Ethernet2Header::read`, `SingleVlanHeader::read`, `Ipv6FragmentHeader::read`,
    `UdpHeader::read`, `Icmpv6Header::read`: one `read_exact` of the constant length. -/
def eth2 : RProg Bytes := readN 14
def vlan : RProg Bytes := readN 4
def ipv6frag : RProg Bytes := readN 8
def udp : RProg Bytes := readN 8
def icmpv6 : RProg Bytes := readN 8

/-- `LinuxSllHeader::read`: 16 bytes, then `from_bytes` (packet type / ARP hardware id checks). -/
def sll : RProg Bytes :=
  .read 16 fun b =>
    match Sll.fromSlice b with
    | .ok _ => .done (.ok b)
    | .error e => .done (.error e.render)

/-- `MacsecHeader::read`: 6 bytes, checks, then the rest (SCI and/or ether type). -/
def macsec : RProg Bytes :=
  .read 6 fun b =>
    let tci := bAt b 0
    if (tci &&& 0b1000_0000) ≠ 0 then .done (.error "err(content(UnexpectedVersion))")
    else
      let unmodified : Bool := (tci &&& 0b1100) = 0
      if unmodified ∧ (bAt b 1 &&& 0b0011_1111) = 1 then
        .done (.error "err(content(InvalidUnmodifiedShortLen))")
      else
        let req := 6 + (if unmodified then 2 else 0) + (if (tci &&& 0b10_0000) ≠ 0 then 8 else 0)
        if req > 6 then .read (req - 6) fun r => .done (.ok (b ++ r))
        else .done (.ok b)

/-- `ArpPacket::read`: 8 bytes, then the four addresses with the sizes just read. -/
def arp : RProg Bytes :=
  .read 8 fun s =>
    .read (bAt s 4) fun a =>
      .read (bAt s 5) fun b =>
        .read (bAt s 4) fun c =>
          .read (bAt s 5) fun d => .done (.ok (s ++ a ++ b ++ c ++ d))

/-- `Ipv4Header::read` + `read_without_version`. -/
def ipv4 : RProg Bytes :=
  .read 1 fun f =>
    let version := bAt f 0 >>> 4
    if version ≠ 4 then .done (.error s!"err(version({version}))")
    else
      .read 19 fun r =>
        let ihl := bAt f 0 &&& 0xf
        if ihl < 5 then .done (.error s!"err(ihl({ihl}))")
        else
          let optLen := (ihl - 5) * 4
          if optLen ≠ 0 then .read optLen fun o => .done (.ok (f ++ r ++ o))
          else .done (.ok (f ++ r))

/-- `Ipv6Header::read` + `read_without_version`. -/
def ipv6 : RProg Bytes :=
  .read 1 fun f =>
    let version := bAt f 0 >>> 4
    if version ≠ 6 then .done (.error s!"err(version({version}))")
    else .read 39 fun r => .done (.ok (f ++ r))

/-- `Ipv6RawExtHeader::read` -/
def rawext : RProg Bytes :=
  .read 2 fun d => .read (bAt d 1 * 8 + 6) fun p => .done (.ok (d ++ p))

/-- `IpAuthHeader::read` -/
def auth : RProg Bytes :=
  .read 12 fun s =>
    if bAt s 1 < 1 then .done (.error "err(zeropayloadlen)")
    else .read ((bAt s 1 - 1) * 4) fun icv => .done (.ok (s ++ icv))

/-- `TcpHeader::read` -/
def tcp : RProg Bytes :=
  .read 20 fun raw =>
    let dataOffset := (bAt raw 12 &&& 0xf0) >>> 4
    if dataOffset < 5 then
      .done (.error s!"err(content(DataOffsetTooSmall(data_offset={dataOffset})))")
    else
      let len := ((dataOffset - 5) <<< 2) % 256
      if len > 0 then .read len fun o => .done (.ok (raw ++ o))
      else .done (.ok raw)

/-- `Icmpv4Header::read` -/
def icmpv4 : RProg Bytes :=
  .read 8 fun b =>
    if (bAt b 0 = 14 ∨ bAt b 0 = 13) ∧ bAt b 1 = 0 then .read 12 fun r => .done (.ok (b ++ r))
    else .done (.ok b)

/-- `Ipv4Extensions::read`: authentication header bytes (if announced) and the next ip number. -/
def ipv4exts (start : Nat) : RProg (Option Bytes × Nat) :=
  if CodecNet.ipNumberAuth = start then auth.bind fun b => .done (.ok (some b, bAt b 0))
  else .done (.ok (none, start))

/-- result of `Ipv6Extensions::read`: the bytes gathered for each header, and the next ip number -/
structure ExtsRead where
  got : List (ExtKind × Bytes)
  next : Nat
deriving Repr

/-- which slot of the result struct the loop of `Ipv6Extensions::read` fills for `next`:
    `none` = `return Ok((result, next_protocol))`. `free` = the slots that are still `None`. -/
def slot (next : Nat) (free : List ExtKind) : Option ({k : ExtKind // k ∈ free} × RProg Bytes) :=
  if next = 60 then
    (if .rt ∉ free then (if h : .fdst ∈ free then some (⟨.fdst, h⟩, rawext) else none)
     else if h : .dst ∈ free then some (⟨.dst, h⟩, rawext) else none)
  else if next = 43 then (if h : .rt ∈ free then some (⟨.rt, h⟩, rawext) else none)
  else if next = 44 then (if h : .frag ∈ free then some (⟨.frag, h⟩, ipv6frag) else none)
  else if next = 51 then (if h : .auth ∈ free then some (⟨.auth, h⟩, auth) else none)
  else none

/-- the `loop` of `Ipv6Extensions::read`. -/
def extsLoop (next : Nat) (free : List ExtKind) (got : List (ExtKind × Bytes)) : RProg ExtsRead :=
  if next = 0 then .done (.error "err(hbhnotatstart)")
  else
    match slot next free with
    | none => .done (.ok { got := got, next := next })
    | some (⟨k, hm⟩, p) => p.bind fun b => extsLoop (bAt b 0) (free.erase k) (got ++ [(k, b)])
termination_by free.length
decreasing_by
  rw [List.length_erase_of_mem hm]
  have := List.length_pos_of_mem hm
  omega

/-- `Ipv6Extensions::read` -/
def ipv6exts (start : Nat) : RProg ExtsRead :=
  if start = 0 then
    rawext.bind fun b => extsLoop (bAt b 0) [.dst, .rt, .frag, .auth, .fdst] [(.hbh, b)]
  else extsLoop start [.dst, .rt, .frag, .auth, .fdst] []

end Reads

/-! ## the limited readers -/

namespace LReads

/-- `Ipv6RawExtHeader::read_limited` -/
def rawext : LProg Bytes :=
  .start "Ipv6ExtHeader" (.read 2 fun d => .read (bAt d 1 * 8 + 6) fun p => .done (.ok (d ++ p)))

/-- `Ipv6FragmentHeader::read_limited` -/
def ipv6frag : LProg Bytes := .start "Ipv6FragHeader" (.read 8 fun b => .done (.ok b))

/-- `IpAuthHeader::read_limited` -/
def auth : LProg Bytes :=
  .start "IpAuthHeader" (.read 12 fun s =>
    if bAt s 1 < 1 then .done (.error "err(zeropayloadlen)")
    else .read ((bAt s 1 - 1) * 4) fun icv => .done (.ok (s ++ icv)))

/-- `Ipv4Extensions::read_limited` -/
def ipv4exts (start : Nat) : LProg (Option Bytes × Nat) :=
  if CodecNet.ipNumberAuth = start then auth.bind fun b => .done (.ok (some b, bAt b 0))
  else .done (.ok (none, start))

def slot (next : Nat) (free : List ExtKind) : Option ({k : ExtKind // k ∈ free} × LProg Bytes) :=
  if next = 60 then
    (if .rt ∉ free then (if h : .fdst ∈ free then some (⟨.fdst, h⟩, rawext) else none)
     else if h : .dst ∈ free then some (⟨.dst, h⟩, rawext) else none)
  else if next = 43 then (if h : .rt ∈ free then some (⟨.rt, h⟩, rawext) else none)
  else if next = 44 then (if h : .frag ∈ free then some (⟨.frag, h⟩, ipv6frag) else none)
  else if next = 51 then (if h : .auth ∈ free then some (⟨.auth, h⟩, auth) else none)
  else none

/-- the `loop` of `Ipv6Extensions::read_limited`. -/
def extsLoop (next : Nat) (free : List ExtKind) (got : List (ExtKind × Bytes)) :
    LProg Reads.ExtsRead :=
  if next = 0 then .done (.error "err(hbhnotatstart)")
  else
    match slot next free with
    | none => .done (.ok { got := got, next := next })
    | some (⟨k, hm⟩, p) => p.bind fun b => extsLoop (bAt b 0) (free.erase k) (got ++ [(k, b)])
termination_by free.length
decreasing_by
  rw [List.length_erase_of_mem hm]
  have := List.length_pos_of_mem hm
  omega

/-- `Ipv6Extensions::read_limited` -/
def ipv6exts (start : Nat) : LProg Reads.ExtsRead :=
  if start = 0 then
    rawext.bind fun b => extsLoop (bAt b 0) [.dst, .rt, .frag, .auth, .fdst] [(.hbh, b)]
  else extsLoop start [.dst, .rt, .frag, .auth, .fdst] []

end LReads

/-! ### IpHeaders::read (a plain prefix, then a LimitedReader around the same reader) -/

inductive IpRead where
  | v4 (h : Bytes) (auth : Option Bytes) (next : Nat)
  | v6 (h : Bytes) (e : Reads.ExtsRead)
deriving Repr

/-- what `IpHeaders::read` does behind the first byte: the rest of the header with the plain
    reader, then the extension headers through a `LimitedReader::new(reader, …)`. -/
inductive IpReadPlan where
  | fail (rendered : String)
  | v4 (rest : Nat)
  | v6

def ipHeadersPlan (first : Bytes) : IpReadPlan :=
  let value := bAt first 0
  if value >>> 4 = 4 then
    let ihl := value &&& 0xf
    if ihl < 5 then .fail s!"err(ihl({ihl}))" else .v4 (ihl * 4 - 1)
  else if value >>> 4 = 6 then .v6
  else .fail s!"err(version({value >>> 4}))"

def liftErr {α : Type} : Limited × Except LErr α → Reader × Except LErr α
  | (l, r) => (l.inner, if l.panicked then .error .panic else r)

/-- `IpHeaders::read` -/
def ipHeadersRead (r : Reader) : Reader × Except LErr IpRead :=
  match r.readExact 1 with
  | (r1, .error e) => (r1, .error (.io e))
  | (r1, .ok first) =>
    match ipHeadersPlan first with
    | .fail s => (r1, .error (.other s))
    | .v4 rest =>
      match r1.readExact rest with
      | (r2, .error e) => (r2, .error (.io e))
      | (r2, .ok more) =>
        let hdr := first ++ more
        let headerLen := rest + 1
        let totalLen := be16 hdr 2
        if totalLen < headerLen then
          (r2, .error (.len { required := headerLen, len := totalLen, src := "Ipv4HeaderTotalLen",
                              layer := "Ipv4Packet", off := 0 }))
        else
          let l := Limited.new r2 (totalLen - headerLen) "Ipv4HeaderTotalLen" headerLen "Ipv4Header"
          match liftErr ((LReads.ipv4exts (bAt hdr 9)).run l) with
          | (r3, .error e) => (r3, .error e)
          | (r3, .ok (a, next)) => (r3, .ok (.v4 hdr a next))
    | .v6 =>
      match r1.readExact 39 with
      | (r2, .error e) => (r2, .error (.io e))
      | (r2, .ok more) =>
        let hdr := first ++ more
        let l := Limited.new r2 (be16 hdr 4) "Ipv6HeaderPayloadLen" 40 "Ipv6Header"
        match liftErr ((LReads.ipv6exts (bAt hdr 6)).run l) with
        | (r3, .error e) => (r3, .error e)
        | (r3, .ok e) => (r3, .ok (.v6 hdr e))

end EpModel.Io
