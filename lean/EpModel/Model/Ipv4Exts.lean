/-
  Model of `Ipv4Extensions` (etherparse/src/net/ipv4_exts.rs, a single optional authentication
  header) with the same five walkers as `Ipv6Extensions`, and of the ether type / protocol number
  bookkeeping of `IpHeaders::set_next_headers`, `IpHeaders::next_header` (ip_headers.rs) and
  `NetHeaders::try_set_next_headers` (net_headers.rs).
  Core Lean only.
-/
import EpModel.Model.Ipv6Exts
namespace EpModel.Ext

/-- `Ipv4Extensions` -/
structure Exts4 where
  auth : Option Auth
deriving DecidableEq, Repr

def Exts4.WF (e : Exts4) : Prop := optWF Auth.WF e.auth
instance (e : Exts4) : Decidable e.WF := by unfold Exts4.WF; exact inferInstance

/-- `Ipv4Extensions::header_len` -/
def Exts4.headerLen (e : Exts4) : Nat :=
  match e.auth with
  | some header => header.headerLen
  | none => 0

/-- `Ipv4Extensions::set_next_headers` -/
def Exts4.setNextHeaders (e : Exts4) (lastProtocolNumber : Nat) : Exts4 × Nat :=
  match e.auth with
  | some header => ({ auth := some { header with nextHeader := lastProtocolNumber } }, AUTH)
  | none => ({ auth := none }, lastProtocolNumber)

/-- `Ipv4Extensions::next_header` (`err::ipv4_exts::ExtsWalkError` has the single variant
    `ExtNotReferenced`; it is represented by the same `WalkErr` type). -/
def Exts4.nextHeader (e : Exts4) (firstNextHeader : Nat) : Except (Fault WalkErr) Nat :=
  match e.auth with
  | some auth =>
    if firstNextHeader = AUTH then .ok auth.nextHeader
    else .error (.err (.extNotReferenced AUTH))
  | none => .ok firstNextHeader

/-- `Ipv4Extensions::write` into a writer that never fails. -/
def Exts4.write (e : Exts4) (startIpNumber : Nat) : Bytes × Except (Fault WalkErr) Unit :=
  match e.auth with
  | some header =>
    if AUTH = startIpNumber then (header.toBytes, .ok ())
    else ([], .error (.err (.extNotReferenced AUTH)))
  | none => ([], .ok ())

/-- `Ipv4Extensions::from_slice` (= `Ipv4ExtensionsSlice::from_slice` + `to_header`) -/
def Exts4.fromSlice (startIpNumber : Nat) (slice : Bytes) : Except (Fault AuthSliceErr) (Exts4 × Nat × Bytes) :=
  if AUTH = startIpNumber then
    match authSliceLen slice with
    | .error err => .error (.err err)
    | .ok len =>
      match authToHeader slice len with
      | .error f => .error f
      | .ok header => .ok ({ auth := some header }, bAt slice 0, slice.drop len)
  else .ok ({ auth := none }, startIpNumber, slice)

/-! ### IP header level: which ether type is reported, which field receives the first number -/

abbrev ETHER_TYPE_IPV4 : Nat := 0x0800
abbrev ETHER_TYPE_IPV6 : Nat := 0x86dd

/-- the part of `IpHeaders` / `NetHeaders` the chain bookkeeping touches: the version, the
    `protocol` / `next_header` field of the IP header and the extensions. -/
inductive IpHdrs where
  | ipv4 (protocol : Nat) (exts : Exts4)
  | ipv6 (nextHeader : Nat) (exts : Exts)
deriving DecidableEq, Repr

/-- IP version of the header set (which enum variant it is). -/
def IpHdrs.version : IpHdrs → Nat
  | .ipv4 _ _ => 4
  | .ipv6 _ _ => 6

/-- `IpHeaders::set_next_headers` -/
def IpHdrs.setNextHeaders (h : IpHdrs) (lastNextHeader : Nat) : IpHdrs × Nat :=
  match h with
  | .ipv4 _ exts =>
    let (exts, first) := exts.setNextHeaders lastNextHeader
    (.ipv4 first exts, ETHER_TYPE_IPV4)
  | .ipv6 _ exts =>
    let (exts, first) := exts.setNextHeaders lastNextHeader
    (.ipv6 first exts, ETHER_TYPE_IPV6)

/-- `err::ip_exts::ExtsWalkError` -/
inductive IpWalkErr where
  | ipv4Exts (e : WalkErr)
  | ipv6Exts (e : WalkErr)
deriving DecidableEq, Repr

/-- `IpHeaders::next_header` -/
def IpHdrs.nextHeader (h : IpHdrs) : Except (Fault IpWalkErr) Nat :=
  match h with
  | .ipv4 protocol exts =>
    match exts.nextHeader protocol with
    | .ok n => .ok n
    | .error .panic => .error .panic
    | .error (.err e) => .error (.err (.ipv4Exts e))
  | .ipv6 nextHeader exts =>
    match exts.nextHeader nextHeader with
    | .ok n => .ok n
    | .error .panic => .error .panic
    | .error (.err e) => .error (.err (.ipv6Exts e))

/-- `NetHeaders` as far as `try_set_next_headers` is concerned. -/
inductive NetHdrs where
  | ip (h : IpHdrs)
  | arp
deriving DecidableEq, Repr

inductive NetSetNextHeaderError where
  | arpHeader
deriving DecidableEq, Repr

/-- `NetHeaders::try_set_next_headers` (a second copy of the `IpHeaders` code) -/
def NetHdrs.trySetNextHeaders (h : NetHdrs) (lastNextHeader : Nat) : Except NetSetNextHeaderError (NetHdrs × Nat) :=
  match h with
  | .ip (.ipv4 _ exts) =>
    let (exts, first) := exts.setNextHeaders lastNextHeader
    .ok (.ip (.ipv4 first exts), ETHER_TYPE_IPV4)
  | .ip (.ipv6 _ exts) =>
    let (exts, first) := exts.setNextHeaders lastNextHeader
    .ok (.ip (.ipv6 first exts), ETHER_TYPE_IPV6)
  | .arp => .error .arpHeader

end EpModel.Ext
