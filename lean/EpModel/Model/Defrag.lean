import EpModel.Model.Basic
/-
  Model of etherparse/src/defrag/ (IpFragRange, IpDefragBuf, IpDefragPool), following the Rust code
  as written (tree after the "fix:" commit a44b17c: second ConflictingEnd check in `add`).

  Core Lean only.  Integers are `Nat`; the u16 arithmetic of `add` is modelled by the explicit
  range checks of the code (`u16::try_from`, `checked_add`).

  Memory model of the reconstruction buffer (`data: Vec<u8>` with `set_len` over the capacity):
  a cell is `some b` if byte `b` was written into it by `copy_from_slice` since the buffer was handed
  to this `IpDefragBuf`, and `none` if it was only made visible by `set_len` (it then holds whatever
  was in the capacity: bytes of an earlier datagram when the vector was recycled by the pool, or
  uninitialised memory).  A `none` in a returned payload is a leaked stale byte.
-/
namespace EpModel.Defrag
open EpModel

/-! ### ip_frag_range.rs -/

/-- `IpFragRange { start, end }` (`end` = offset + length). -/
structure Range where
  start : Nat
  stop : Nat
deriving DecidableEq, Repr

/-- `IpFragRange::is_value_connected` -/
def Range.isValueConnected (r : Range) (v : Nat) : Prop := r.start ≤ v ∧ r.stop ≥ v

instance (r : Range) (v : Nat) : Decidable (r.isValueConnected v) := by
  unfold Range.isValueConnected; exact inferInstance

/-- `IpFragRange::merge` -/
def Range.merge (a b : Range) : Option Range :=
  if a.isValueConnected b.start ∨ a.isValueConnected b.stop ∨ b.isValueConnected a.start
      ∨ b.isValueConnected a.stop then
    some { start := min a.start b.start, stop := max a.stop b.stop }
  else none

/-! ### ip_defrag_error.rs -/

/-- `IpDefragError` (offsets are `IpFragOffset` values, i.e. units of 8 bytes). -/
inductive Err where
  | unalignedFragmentPayloadLen (offset payloadLen : Nat)
  | segmentTooBig (offset payloadLen max : Nat)
  | conflictingEnd (previousEnd conflictingEnd : Nat)
  | allocationFailure (len : Nat)   -- never produced by the model (allocation is assumed to succeed)
deriving DecidableEq, Repr

/-- `MAX_IP_DEFRAG_LEN_U16` -/
def maxLen : Nat := 65535

/-! ### ip_defrag_buf.rs -/

abbrev Cell := Option UInt8

/-- `IpDefragBuf` -/
structure Buf where
  ipNumber : Nat
  data : List Cell
  sections : List Range
  endKnown : Option Nat
deriving DecidableEq, Repr

/-- `IpDefragBuf::new`: both vectors are cleared (their capacity, i.e. the stale content, stays). -/
def Buf.new (ipNumber : Nat) : Buf :=
  { ipNumber := ipNumber, data := [], sections := [], endKnown := none }

/-- `self.sections.iter().map(|s| s.end).max()` -/
def maxStop : List Range → Option Nat
  | [] => none
  | r :: rs =>
    match maxStop rs with
    | none => some r.stop
    | some m => some (max r.stop m)

/-- `self.data[off..off+len].copy_from_slice(payload)` (the caller made `data` long enough). -/
def writeAt (data : List Cell) (off : Nat) (payload : Bytes) : List Cell :=
  data.take off ++ payload.map some ++ data.drop (off + payload.length)

/-- the `retain` closure of `add`: merges every section connected to the (growing) new section
    into it and removes it; returns the final new section and the retained sections. -/
def mergeLoop (ns : Range) : List Range → Range × List Range
  | [] => (ns, [])
  | it :: rest =>
    match ns.merge it with
    | some merged => mergeLoop merged rest
    | none => ((mergeLoop ns rest).1, it :: (mergeLoop ns rest).2)

/-- `if self.data.len() < required_len { … set_len(required_len) }`: the new cells are whatever the
    capacity holds (`none`). -/
def growTo (data : List Cell) (n : Nat) : List Cell :=
  if data.length < n then data ++ List.replicate (n - data.length) none else data

/-- first half of `IpDefragBuf::add(offset, more_fragments, payload)`: the validation.  `fo` is the
    `IpFragOffset` value (units of 8 bytes, ≤ 8191 by the type's invariant).  Every `return Err` of
    the Rust function comes before the first mutation of `self`. -/
def Buf.addCheck (b : Buf) (fo : Nat) (mf : Bool) (payload : Bytes) : Option Err :=
  let off := fo * 8
  let len := payload.length
  -- u16::try_from(payload.len())
  if len > maxLen then some (.segmentTooBig fo len maxLen)
  -- offset.byte_offset().checked_add(len_u16)
  else if off + len > maxLen then some (.segmentTooBig fo len maxLen)
  -- payload len multiple of 8 unless it is the end
  else if mf = true ∧ len % 8 ≠ 0 then some (.unalignedFragmentPayloadLen fo len)
  else
    let stop := off + len
    -- check the section is not already ended
    match (match b.endKnown with
           | some previousEnd =>
             if previousEnd < stop ∨ (mf = false ∧ stop ≠ previousEnd) then
               some (Err.conflictingEnd previousEnd stop) else none
           | none => none) with
    | some e => some e
    | none =>
      -- check that no already received section is located after the new end (commit a44b17c)
      if mf = false then
        match maxStop b.sections with
        | some maxEnd => if maxEnd > stop then some (Err.conflictingEnd maxEnd stop) else none
        | none => none
      else none

/-- second half of `add`: the mutation (runs only if the validation passed). -/
def Buf.addCore (b : Buf) (fo : Nat) (mf : Bool) (payload : Bytes) : Buf :=
  let off := fo * 8
  let stop := off + payload.length
  -- get enough memory (set_len), insert new data
  let data := writeAt (growTo b.data stop) off payload
  -- update sections: merge connected sections into the new one, push it
  let m := mergeLoop { start := off, stop := stop } b.sections
  -- set end: `self.end = Some(end); self.data.set_len(end)` for a last fragment
  { ipNumber := b.ipNumber,
    data := if mf = false then data.take stop else data,
    sections := m.2 ++ [m.1],
    endKnown := if mf = false then some stop else b.endKnown }

/-- `IpDefragBuf::add`; an error leaves the buffer as it was (the caller keeps `b`). -/
def Buf.add (b : Buf) (fo : Nat) (mf : Bool) (payload : Bytes) : Except Err Buf :=
  match b.addCheck fo mf payload with
  | some e => .error e
  | none => .ok (b.addCore fo mf payload)

/-- `IpDefragBuf::is_complete` -/
def Buf.isComplete (b : Buf) : Bool :=
  match b.endKnown, b.sections with
  | some _, [s] => s.start = 0
  | _, _ => false

/-! ### ip_frag_id.rs, ip_frag_version_spec_id.rs -/

/-- `IpFragId<u32>`: the stream key. -/
structure Key where
  /-- 4 or 6 (`IpFragVersionSpecId::Ipv4` / `Ipv6`) -/
  ver : Nat
  source : Bytes
  destination : Bytes
  identification : Nat
  payloadIpNumber : Nat
  vlanIds : List Nat
  channelId : Nat
deriving DecidableEq, Repr

/-! ### ip_defrag_pool.rs -/

/-- `IpDefragPayloadVec` (`len_source` is `Ipv4HeaderTotalLen` iff `isIpv4`). -/
structure Payload where
  ipNumber : Nat
  isIpv4 : Bool
  payload : List Cell
deriving DecidableEq, Repr

/-- `IpDefragPool<u64, u32>`; `active` is an association list with unique keys (HashMap), the two
    buffer stacks have their top at the head. -/
structure Pool where
  active : List (Key × Buf × Nat)
  finishedDataBufs : List (List Cell)
  finishedSectionBufs : List (List Range)
deriving Repr

def Pool.new : Pool := { active := [], finishedDataBufs := [], finishedSectionBufs := [] }

def lookup (k : Key) : List (Key × Buf × Nat) → Option (Buf × Nat)
  | [] => none
  | (k', v) :: rest => if k' = k then some v else lookup k rest

def erase (k : Key) : List (Key × Buf × Nat) → List (Key × Buf × Nat)
  | [] => []
  | (k', v) :: rest => if k' = k then rest else (k', v) :: erase k rest

def replace (k : Key) (v : Buf × Nat) : List (Key × Buf × Nat) → List (Key × Buf × Nat)
  | [] => []
  | (k', v') :: rest => if k' = k then (k', v) :: rest else (k', v') :: replace k v rest

/-- What `process_sliced_packet` looks at in a `SlicedPacket`. -/
inductive Packet where
  /-- IPv4 packet (flags/fragment offset always present) or IPv6 packet with a fragment header. -/
  | frag (key : Key) (fo : Nat) (mf : Bool) (payload : Bytes)
  /-- IPv6 packet without fragment header. -/
  | plain (key : Key) (payload : Bytes)
  /-- ARP or no network layer. -/
  | nonIp
deriving Repr

/-- `IpDefragPool::process_sliced_packet` -/
def Pool.process (p : Pool) (pkt : Packet) (ts : Nat) : Pool × Except Err (Option Payload) :=
  match pkt with
  | .nonIp => (p, .ok none)
  | .plain _ _ => (p, .ok none)
  | .frag key fo mf payload =>
    -- is_fragmenting_payload
    if ¬ (mf = true ∨ fo ≠ 0) then (p, .ok none)
    else
      match lookup key p.active with
      | some (buf, _) =>
        -- Entry::Occupied
        match buf.add fo mf payload with
        | .error e => (p, .error e)
        | .ok buf' =>
          if buf'.isComplete then
            ({ active := erase key p.active,
               finishedDataBufs := p.finishedDataBufs,
               finishedSectionBufs := buf'.sections :: p.finishedSectionBufs },
             .ok (some { ipNumber := key.payloadIpNumber, isIpv4 := key.ver = 4, payload := buf'.data }))
          else
            ({ active := replace key (buf', ts) p.active,
               finishedDataBufs := p.finishedDataBufs,
               finishedSectionBufs := p.finishedSectionBufs }, .ok none)
      | none =>
        -- Entry::Vacant: pop (and clear) recycled vectors or allocate new ones
        let restData := p.finishedDataBufs.tail
        let restSections := p.finishedSectionBufs.tail
        match (Buf.new key.payloadIpNumber).add fo mf payload with
        | .ok buf' =>
          ({ active := p.active ++ [(key, buf', ts)],
             finishedDataBufs := restData,
             finishedSectionBufs := restSections }, .ok none)
        | .error e =>
          -- the (cleared) buffers go back onto the stacks
          ({ active := p.active,
             finishedDataBufs := [] :: restData,
             finishedSectionBufs := [] :: restSections }, .error e)

/-- `IpDefragPool::return_buf` -/
def Pool.returnBuf (p : Pool) (buf : Payload) : Pool :=
  { active := p.active, finishedDataBufs := buf.payload :: p.finishedDataBufs,
    finishedSectionBufs := p.finishedSectionBufs }

/-- the buffers of the evicted entries, in map order -/
def evicted (f : Nat → Bool) : List (Key × Buf × Nat) → List Buf
  | [] => []
  | (_, b, t) :: rest => if f t then evicted f rest else b :: evicted f rest

/-- `IpDefragPool::retain(f)`: entries whose timestamp fails `f` are dropped and their vectors
    pushed onto the stacks (in the map's iteration order, which the model fixes as list order; the
    order is not observable through the API). -/
def Pool.retain (p : Pool) (f : Nat → Bool) : Pool :=
  let ev := evicted f p.active
  { active := p.active.filter (fun e => f e.2.2),
    finishedDataBufs := (ev.map (·.data)).reverse ++ p.finishedDataBufs,
    finishedSectionBufs := (ev.map (·.sections)).reverse ++ p.finishedSectionBufs }

/-! ### histories (what a user of the pool does) -/

inductive Op where
  | deliver (pkt : Packet) (ts : Nat)
  /-- give the oldest outstanding returned payload back with `return_buf` -/
  | ret
  /-- `retain(|t| *t >= minTs)` -/
  | retain (minTs : Nat)
deriving Repr

inductive Out where
  | none
  | ok (p : Payload)
  | err (e : Err)
  | returned (n : Nat)
  | retained (active : Nat)
deriving DecidableEq, Repr

structure Session where
  pool : Pool
  outstanding : List Payload
deriving Repr

def Session.new : Session := { pool := Pool.new, outstanding := [] }

def Session.step (s : Session) : Op → Session × Out
  | .deliver pkt ts =>
    match s.pool.process pkt ts with
    | (p, .ok none) => ({ pool := p, outstanding := s.outstanding }, .none)
    | (p, .ok (some pl)) => ({ pool := p, outstanding := s.outstanding ++ [pl] }, .ok pl)
    | (p, .error e) => ({ pool := p, outstanding := s.outstanding }, .err e)
  | .ret =>
    match s.outstanding with
    | [] => (s, .returned 0)
    | pl :: rest => ({ pool := s.pool.returnBuf pl, outstanding := rest }, .returned 1)
  | .retain minTs =>
    let p := s.pool.retain (fun t => decide (t ≥ minTs))
    ({ pool := p, outstanding := s.outstanding }, .retained p.active.length)

def Session.run (s : Session) : List Op → Session × List Out
  | [] => (s, [])
  | op :: rest =>
    let r := s.step op
    let rr := r.1.run rest
    (rr.1, r.2 :: rr.2)

end EpModel.Defrag
