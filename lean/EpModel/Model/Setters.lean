import EpModel.Model.ChecksumFast
import EpModel.Model.Codec.NetIpv4
import EpModel.Model.Codec.NetIpv6
import EpModel.Model.Codec.NetIpv6Frag
import EpModel.Model.Codec.NetAuth
import EpModel.Model.Codec.NetRawExt
import EpModel.Model.Codec.NetIpv4Exts
import EpModel.Model.Codec.LinkEth
import EpModel.Model.Codec.LinkArp
import EpModel.Model.Codec.TpUdpTcp
import EpModel.Model.Codec.TpIcmp
/-
  C14 — model of every constructor / setter / checksum entry point of etherparse that takes a
  caller supplied length (a `usize`, a `u16`, or the length of a slice) and stores it into a
  narrower wire field.  The header types, their `to_bytes` and `from_slice` are the C08 codec
  models (EpModel.Model.Codec.*); this file only adds the functions with a length check.

  Conventions
    * `usize` values are `Nat`; the only place where the 64 bit width matters is the
      `checked_add` of `IpHeaders::set_payload_len`, modelled with the explicit bound `usizeMax`.
    * every narrowing cast of the code (`as u8`, `as u16`, `as u32`) and every fixed width addition
      is an explicit `% 2^k` *behind* the check, exactly where the code has it: the theorems of
      Props/C14 show that under the check the reduction is the identity, and that it is not the
      identity without the check (`wraps_without_check`).
    * `&mut self` setters return the pair (result, header after the call); the error branches
      return the header they were given, as the code does (it returns before any assignment).
    * error values are mirrored field by field (`ValueTooBigError{actual,max_allowed,value_type}`,
      `IcvLenError`, `ExtPayloadLenError`, `BadOptionsLen`, `TcpOptionWriteError::NotEnoughSpace`,
      `ArpNewError`/`ArpHwAddrError`/`ArpProtoAddrError`).
-/
namespace EpModel.Setters
open EpModel EpModel.Checksum

/-- `usize::MAX` on the modelled 64 bit target. -/
def usizeMax : Nat := 18446744073709551615

/-- the `err::ValueType`s used by the length taking APIs. -/
inductive VT where
  | ipv4PayloadLength | ipv6PayloadLength
  | udpPayloadLengthIpv4 | udpPayloadLengthIpv6
  | tcpPayloadLengthIpv4 | tcpPayloadLengthIpv6
  | icmpv6PayloadLength | macsecShortLen
  deriving DecidableEq, Repr

def VT.name : VT → String
  | .ipv4PayloadLength => "Ipv4PayloadLength"
  | .ipv6PayloadLength => "Ipv6PayloadLength"
  | .udpPayloadLengthIpv4 => "UdpPayloadLengthIpv4"
  | .udpPayloadLengthIpv6 => "UdpPayloadLengthIpv6"
  | .tcpPayloadLengthIpv4 => "TcpPayloadLengthIpv4"
  | .tcpPayloadLengthIpv6 => "TcpPayloadLengthIpv6"
  | .icmpv6PayloadLength => "Icmpv6PayloadLength"
  | .macsecShortLen => "MacsecShortLen"

/-- `err::ValueTooBigError<T>` -/
structure TooBig where
  actual : Nat
  maxAllowed : Nat
  vt : VT
  deriving DecidableEq, Repr

/-- `Result::is_ok` -/
def isOk {ε α : Type} : Except ε α → Bool
  | .ok _ => true
  | .error _ => false

/-! ## IPv4 header -/
section Ipv4
open EpModel.CodecNet

/-- `Ipv4Header::new(payload_len: u16, ttl, protocol, source, destination)`;
    `const MAX_PAYLOAD: u16 = u16::MAX - (Ipv4Header::MIN_LEN as u16)`; the sum
    `payload_len + 20` is a `u16` addition. -/
def ipv4New (payloadLen ttl proto : Nat) (src dst : Bytes) : Except TooBig Ipv4Header :=
  if payloadLen > 65535 - 20 then
    .error { actual := payloadLen, maxAllowed := 65535 - 20, vt := .ipv4PayloadLength }
  else
    .ok { dscp := 0, ecn := 0, totalLen := (payloadLen + 20) % 65536, identification := 0,
          dontFragment := true, moreFragments := false, fragmentOffset := 0, timeToLive := ttl,
          protocol := proto, headerChecksum := 0, source := src, destination := dst,
          options := [] }

/-- `Ipv4Header::max_payload_len`: `u16::MAX - u16::from(options.len_u8()) - 20` -/
def ipv4MaxPayloadLen (h : Ipv4Header) : Nat := 65535 - h.optLenU8 - 20

/-- `Ipv4Header::set_payload_len(&mut self, value: usize)`:
    `self.total_len = (self.header_len() + value) as u16` behind `value > max_allowed`. -/
def ipv4SetPayloadLen (h : Ipv4Header) (value : Nat) : Except TooBig Unit × Ipv4Header :=
  let maxAllowed := ipv4MaxPayloadLen h
  if value > maxAllowed then
    (.error { actual := value, maxAllowed := maxAllowed, vt := .ipv4PayloadLength }, h)
  else
    (.ok (), { h with totalLen := (h.headerLen + value) % 65536 })

/-- `Ipv4Header::set_options(&mut self, data)`: `self.options = data.try_into()?`
    (error value: `BadOptionsLen{bad_len}`). -/
def ipv4SetOptions (h : Ipv4Header) (data : Bytes) : Except Nat Unit × Ipv4Header :=
  match Ipv4Options.tryFrom data with
  | .error e => (.error e, h)
  | .ok o => (.ok (), { h with options := o })

end Ipv4

/-! ## IPv6 header -/
section Ipv6
open EpModel.CodecNet

/-- `Ipv6Header::set_payload_length(&mut self, size: usize)`;
    `const MAX_PAYLOAD_LENGTH: usize = u16::MAX as usize`; `self.payload_length = size as u16`. -/
def ipv6SetPayloadLength (h : Ipv6Header) (size : Nat) : Except TooBig Unit × Ipv6Header :=
  if 65535 < size then
    (.error { actual := size, maxAllowed := 65535, vt := .ipv6PayloadLength }, h)
  else
    (.ok (), { h with payloadLength := size % 65536 })

end Ipv6

/-! ## `IpHeaders::set_payload_len` -/
section IpHeaders
open EpModel.CodecNet

/-- `Ipv6Extensions` (only what `header_len()` looks at: which headers are present). -/
structure Ipv6Exts where
  hopByHop : Option Ipv6RawExtHeader
  destOpts : Option Ipv6RawExtHeader
  /-- `Ipv6RoutingExtensions{routing, final_destination_options}` -/
  routing : Option (Ipv6RawExtHeader × Option Ipv6RawExtHeader)
  fragment : Option Ipv6FragmentHeader
  auth : Option IpAuthHeader
  deriving DecidableEq, Repr

/-- `Ipv6Extensions::header_len` -/
def Ipv6Exts.headerLen (e : Ipv6Exts) : Nat :=
  let result := 0
  let result := match e.hopByHop with | some h => result + h.headerLen | none => result
  let result := match e.destOpts with | some h => result + h.headerLen | none => result
  let result := match e.routing with
    | some (r, fin) =>
      let result := result + r.headerLen
      (match fin with | some h => result + h.headerLen | none => result)
    | none => result
  let result := match e.fragment with | some h => result + h.headerLen | none => result
  match e.auth with | some h => result + h.headerLen | none => result

inductive IpHeaders where
  | v4 (h : Ipv4Header) (e : Ipv4Extensions)
  | v6 (h : Ipv6Header) (e : Ipv6Exts)
  deriving DecidableEq, Repr

/-- `IpHeaders::set_payload_len(&mut self, len: usize)`.  `len.checked_add(exts.header_len())`
    is `None` when the sum exceeds `usize::MAX`.  (The IPv6 overflow branch reports
    `ValueType::Ipv4PayloadLength` in the code; the model follows.) -/
def ipHeadersSetPayloadLen (ip : IpHeaders) (len : Nat) : Except TooBig Unit × IpHeaders :=
  match ip with
  | .v4 h e =>
    if len + e.headerLen ≤ usizeMax then
      let r := ipv4SetPayloadLen h (len + e.headerLen)
      (r.1, .v4 r.2 e)
    else
      (.error { actual := len, maxAllowed := 65535 - h.headerLen - e.headerLen,
                vt := .ipv4PayloadLength }, .v4 h e)
  | .v6 h e =>
    if len + e.headerLen ≤ usizeMax then
      let r := ipv6SetPayloadLength h (len + e.headerLen)
      (r.1, .v6 r.2 e)
    else
      (.error { actual := len, maxAllowed := 65535 - e.headerLen,
                vt := .ipv4PayloadLength }, .v6 h e)

end IpHeaders

/-! ## UDP -/
section Udp
open EpModel.Codec

/-- `UdpHeader::calc_checksum_post_ip` -/
def udpCkPostIp (h : Udp) (pseudo : Nat) (payload : Bytes) : Nat :=
  let s := add2_64 pseudo (enc16 h.sp)
  let s := add2_64 s (enc16 h.dp)
  let s := add2_64 s (enc16 h.len)
  let s := addSlice64 s payload
  swap16 (onesComplementNoZero64 s)

/-- the length bytes both UDP pseudo headers are given: `self.length.to_be_bytes()` (the 16 bit
    field of the header, also for IPv6) -/
def udpPseudoLen (h : Udp) : Bytes := enc16 h.len

/-- `UdpHeader::calc_checksum_ipv4_internal` (pseudo header: source, destination, `[0, 17]`,
    `self.length`) -/
def udpCkIpv4Internal (h : Udp) (src dst payload : Bytes) : Nat :=
  let s := add4_64 0 src
  let s := add4_64 s dst
  let s := add2_64 s [0, 17]
  let s := add2_64 s (udpPseudoLen h)
  udpCkPostIp h s payload

/-- `Sum16BitWords::add_16bytes`: two `add_8bytes` -/
def add16_64 (s : Nat) (v : Bytes) : Nat := add8_64 (add8_64 s (v.take 8)) (v.drop 8)

/-- `UdpHeader::calc_checksum_ipv6_internal` -/
def udpCkIpv6Internal (h : Udp) (src dst payload : Bytes) : Nat :=
  let s := add16_64 0 src
  let s := add16_64 s dst
  let s := add2_64 s [0, 17]
  let s := add2_64 s (udpPseudoLen h)
  udpCkPostIp h s payload

/-- `UdpHeader::without_ipv4_checksum(source_port, destination_port, payload_length: usize)`;
    `const MAX_PAYLOAD_LENGTH: usize = (u16::MAX as usize) - UdpHeader::LEN`;
    `length: (UdpHeader::LEN + payload_length) as u16`. -/
def udpWithoutIpv4Checksum (sp dp payloadLength : Nat) : Except TooBig Udp :=
  if 65535 - 8 < payloadLength then
    .error { actual := payloadLength, maxAllowed := 65535 - 8, vt := .udpPayloadLengthIpv4 }
  else
    .ok { sp := sp, dp := dp, len := (8 + payloadLength) % 65536, ck := 0 }

/-- `UdpHeader::with_ipv4_checksum(source_port, destination_port, ip_header, payload)` -/
def udpWithIpv4Checksum (sp dp : Nat) (src dst payload : Bytes) : Except TooBig Udp :=
  if 65535 - 8 < payload.length then
    .error { actual := payload.length, maxAllowed := 65535 - 8, vt := .udpPayloadLengthIpv4 }
  else
    let result : Udp := { sp := sp, dp := dp, len := (8 + payload.length) % 65536, ck := 0 }
    .ok { result with ck := udpCkIpv4Internal result src dst payload }

/-- `UdpHeader::with_ipv6_checksum` (the limit is the 16 bit one: the length is stored) -/
def udpWithIpv6Checksum (sp dp : Nat) (src dst payload : Bytes) : Except TooBig Udp :=
  if 65535 - 8 < payload.length then
    .error { actual := payload.length, maxAllowed := 65535 - 8, vt := .udpPayloadLengthIpv6 }
  else
    let result : Udp := { sp := sp, dp := dp, len := (8 + payload.length) % 65536, ck := 0 }
    .ok { result with ck := udpCkIpv6Internal result src dst payload }

/-- `UdpHeader::calc_checksum_ipv4_raw` (and `calc_checksum_ipv4`, which passes
    `ip_header.source`/`destination`) -/
def udpCalcChecksumIpv4Raw (h : Udp) (src dst payload : Bytes) : Except TooBig Nat :=
  if 65535 - 8 < payload.length then
    .error { actual := payload.length, maxAllowed := 65535 - 8, vt := .udpPayloadLengthIpv4 }
  else .ok (udpCkIpv4Internal h src dst payload)

/-- `UdpHeader::calc_checksum_ipv6_raw` (and `calc_checksum_ipv6`);
    `const MAX_PAYLOAD_LENGTH: usize = (u32::MAX as usize) - UdpHeader::LEN`. -/
def udpCalcChecksumIpv6Raw (h : Udp) (src dst payload : Bytes) : Except TooBig Nat :=
  if 4294967295 - 8 < payload.length then
    .error { actual := payload.length, maxAllowed := 4294967295 - 8, vt := .udpPayloadLengthIpv6 }
  else .ok (udpCkIpv6Internal h src dst payload)

end Udp

/-! ## TCP -/
section Tcp
open EpModel.Codec

/-- `TcpHeader::header_len_u16`: `20 + u16::from(self.options.len_u8())` -/
def tcpHeaderLenU16 (h : Tcp) : Nat := 20 + h.opts.len

/-- `TcpHeader::calc_checksum_post_ip` (checksum field skipped, `ones_complement`) -/
def tcpCkPostIp (h : Tcp) (pseudo : Nat) (payload : Bytes) : Nat :=
  let s := add2_64 pseudo (enc16 h.sp)
  let s := add2_64 s (enc16 h.dp)
  let s := add4_64 s (enc32 h.seq)
  let s := add4_64 s (enc32 h.ack)
  let s := add2_64 s [u8 h.byte12, u8 h.byte13]
  let s := add2_64 s (enc16 h.win)
  let s := add2_64 s (enc16 h.urgp)
  let s := addSlice64 s h.opts.asSlice
  let s := addSlice64 s payload
  swap16 (onesComplement64 s)

/-- the length put into the IPv4 pseudo header:
    `self.header_len_u16() + (payload.len() as u16)` (a `u16` addition) -/
def tcpLenIpv4 (h : Tcp) (payloadLen : Nat) : Nat := (tcpHeaderLenU16 h + payloadLen % 65536) % 65536

/-- the length put into the IPv6 pseudo header:
    `u32::from(self.header_len_u16()) + (payload.len() as u32)` (a `u32` addition) -/
def tcpLenIpv6 (h : Tcp) (payloadLen : Nat) : Nat :=
  (tcpHeaderLenU16 h + payloadLen % 4294967296) % 4294967296

/-- pseudo header sum of `calc_checksum_ipv4_raw` for a given TCP length -/
def tcpPseudoIpv4 (src dst : Bytes) (tcpLen : Nat) : Nat :=
  let s := add4_64 0 src
  let s := add4_64 s dst
  let s := add2_64 s [0, 6]
  add2_64 s (enc16 tcpLen)

/-- pseudo header sum of `TcpHeader::calc_checksum_ipv6_raw` (length, then `[0, 6]`) -/
def tcpPseudoIpv6 (src dst : Bytes) (tcpLen : Nat) : Nat :=
  let s := add16_64 0 src
  let s := add16_64 s dst
  let s := add4_64 s (enc32 tcpLen)
  add2_64 s [0, 6]

/-- `TcpHeader::calc_checksum_ipv4_raw` (and `calc_checksum_ipv4`);
    `max_payload = usize::from(u16::MAX) - self.header_len()`. -/
def tcpCalcChecksumIpv4Raw (h : Tcp) (src dst payload : Bytes) : Except TooBig Nat :=
  let maxPayload := 65535 - h.headerLen
  if maxPayload < payload.length then
    .error { actual := payload.length, maxAllowed := maxPayload, vt := .tcpPayloadLengthIpv4 }
  else
    .ok (tcpCkPostIp h (tcpPseudoIpv4 src dst (tcpLenIpv4 h payload.length)) payload)

/-- `TcpHeader::calc_checksum_ipv6_raw` (and `calc_checksum_ipv6`);
    `max_payload = (u32::MAX as usize) - self.header_len()`. -/
def tcpCalcChecksumIpv6Raw (h : Tcp) (src dst payload : Bytes) : Except TooBig Nat :=
  let maxPayload := 4294967295 - h.headerLen
  if maxPayload < payload.length then
    .error { actual := payload.length, maxAllowed := maxPayload, vt := .tcpPayloadLengthIpv6 }
  else
    .ok (tcpCkPostIp h (tcpPseudoIpv6 src dst (tcpLenIpv6 h payload.length)) payload)

/-- `TcpSlice::calc_checksum_post_ip`: `slice[..16]`, `slice[18..]`, `ones_complement`
    (a `TcpSlice` has at least 20 bytes) -/
def tcpSliceCkPostIp (slice : Bytes) (pseudo : Nat) : Nat :=
  let s := addSlice64 pseudo (slice.take 16)
  let s := addSlice64 s (slice.drop 18)
  swap16 (onesComplement64 s)

/-- pseudo header sum of `TcpSlice::calc_checksum_ipv6` (`[0, 6]`, then the length) -/
def tcpSlicePseudoIpv6 (src dst : Bytes) (tcpLen : Nat) : Nat :=
  let s := add16_64 0 src
  let s := add16_64 s dst
  let s := add2_64 s [0, 6]
  add4_64 s (enc32 tcpLen)

/-- `TcpSlice::calc_checksum_ipv4`: the checked value is the length of the whole slice
    (header + payload): `(self.slice.len() as u16)`. -/
def tcpSliceCalcChecksumIpv4 (slice src dst : Bytes) : Except TooBig Nat :=
  if 65535 < slice.length then
    .error { actual := slice.length, maxAllowed := 65535, vt := .tcpPayloadLengthIpv4 }
  else
    .ok (tcpSliceCkPostIp slice (tcpPseudoIpv4 src dst (slice.length % 65536)))

/-- `TcpSlice::calc_checksum_ipv6`: `(self.slice.len() as u32)`. -/
def tcpSliceCalcChecksumIpv6 (slice src dst : Bytes) : Except TooBig Nat :=
  if 4294967295 < slice.length then
    .error { actual := slice.length, maxAllowed := 4294967295, vt := .tcpPayloadLengthIpv6 }
  else
    .ok (tcpSliceCkPostIp slice (tcpSlicePseudoIpv6 src dst (slice.length % 4294967296)))

/-- `TcpHeader::set_options_raw(&mut self, data)`: `self.options = TcpOptions::try_from_slice(data)?` -/
def tcpSetOptionsRaw (h : Tcp) (data : Bytes) : Except Err Unit × Tcp :=
  match TcpOpts.tryFromSlice data with
  | .error e => (.error e, h)
  | .ok o => (.ok (), { h with opts := o })

end Tcp

/-! ## ICMPv6 -/
section Icmp6
open EpModel.Codec EpModel.Codec.Icmp6

/-- what `Icmpv6Type::calc_checksum` adds for the 8 header bytes of each variant (`[type, code]`
    and, for the variants that have them, bytes 5–8; the checksum field is skipped) -/
def icmp6TypeSum (t : Icmp6Type) (s : Nat) : Nat :=
  match t with
  | .unknown ty c b58 => add4_64 (add2_64 s [u8 ty, u8 c]) b58
  | .destUnreach code => add2_64 s [1, u8 code]
  | .packetTooBig mtu => add4_64 (add2_64 s [2, 0]) (enc32 mtu)
  | .timeExceeded code => add2_64 s [3, u8 code]
  | .paramProblem code ptr => add4_64 (add2_64 s [4, u8 code]) (enc32 ptr)
  | .echoRequest id seq => add4_64 (add2_64 s [128, 0]) (enc16 id ++ enc16 seq)
  | .echoReply id seq => add4_64 (add2_64 s [129, 0]) (enc16 id ++ enc16 seq)
  | .routerSolicitation => add4_64 (add2_64 s [133, 0]) [0, 0, 0, 0]
  | .routerAdvertisement chl m o lt => add4_64 (add2_64 s [134, 0]) (raBytes chl m o lt)
  | .neighborSolicitation => add4_64 (add2_64 s [135, 0]) [0, 0, 0, 0]
  | .neighborAdvertisement r so o => add4_64 (add2_64 s [136, 0]) (naBytes r so o)
  | .redirect => add4_64 (add2_64 s [137, 0]) [0, 0, 0, 0]

/-- the length put into the pseudo header: `(msg_len as u32)` with
    `msg_len = payload.len() + self.header_len()` -/
def icmp6MsgLenU32 (payloadLen : Nat) : Nat := (payloadLen + 8) % 4294967296

/-- pseudo header of `Icmpv6Type::calc_checksum` for a given message length -/
def icmp6Pseudo (src dst : Bytes) (msgLen : Nat) : Nat :=
  let s := add16_64 0 src
  let s := add16_64 s dst
  let s := add2_64 s [0, 58]
  add4_64 s (enc32 msgLen)

/-- `Icmpv6Type::calc_checksum(source_ip, destination_ip, payload)`;
    `max_payload_len = (u32::MAX as usize) - self.header_len()` -/
def icmp6CalcChecksum (t : Icmp6Type) (src dst payload : Bytes) : Except TooBig Nat :=
  let maxPayloadLen := 4294967295 - 8
  if maxPayloadLen < payload.length then
    .error { actual := payload.length, maxAllowed := maxPayloadLen, vt := .icmpv6PayloadLength }
  else
    let s := icmp6TypeSum t (icmp6Pseudo src dst (icmp6MsgLenU32 payload.length))
    .ok (swap16 (onesComplement64 (addSlice64 s payload)))

/-- `Icmpv6Header::with_checksum` -/
def icmp6WithChecksum (t : Icmp6Type) (src dst payload : Bytes) : Except TooBig Icmp6 :=
  match icmp6CalcChecksum t src dst payload with
  | .error e => .error e
  | .ok ck => .ok { ty := t, ck := ck }

/-- `Icmpv6Header::update_checksum(&mut self, ..)` -/
def icmp6UpdateChecksum (h : Icmp6) (src dst payload : Bytes) : Except TooBig Unit × Icmp6 :=
  match icmp6CalcChecksum h.ty src dst payload with
  | .error e => (.error e, h)
  | .ok ck => (.ok (), { h with ck := ck })

end Icmp6

/-! ## MACsec -/
section Macsec
open EpModel.Codec

/-- `MacsecShortLen::MAX_USIZE` / `MAX_U8` -/
def macsecShortLenMax : Nat := 63

/-- `MacsecShortLen::from_len(len: usize)`: zero ("unknown") when it does not fit, `len as u8`
    otherwise. -/
def macsecFromLen (len : Nat) : Nat :=
  if len > 63 then 0 else len % 256

/-- `MacsecShortLen::try_from(u8)` / `try_from_u8` -/
def macsecTryFromU8 (value : Nat) : Except TooBig Nat :=
  if value ≤ 63 then .ok value
  else .error { actual := value, maxAllowed := 63, vt := .macsecShortLen }

/-- `MacsecHeader::set_payload_len(&mut self, payload_len: usize)` (infallible: a length that
    does not fit sets the documented "unknown" short length 0).
    `payload_len as u8 + 2` is a `u8` addition. -/
def macsecSetPayloadLen (h : Macsec) (payloadLen : Nat) : Macsec :=
  if h.isUnmodified then
    if payloadLen > macsecShortLenMax - 2 then { h with sl := 0 }
    else { h with sl := (payloadLen % 256 + 2) % 256 }
  else if payloadLen > macsecShortLenMax then { h with sl := 0 }
  else { h with sl := payloadLen % 256 }

/-- `MacsecHeader::expected_payload_len` (the decoder of the short length) -/
def macsecExpectedPayloadLen (h : Macsec) : Option Nat :=
  let sl := h.sl
  if sl > 0 then
    if h.isUnmodified then (if sl < 2 then none else some (sl - 2))
    else some sl
  else none

end Macsec

/-! ## IP authentication header, IPv6 raw extension header
    (`IpAuthHeader.new`, `Ipv6RawExtHeader.newRaw` are part of the C08 codec models) -/
section Exts
open EpModel.CodecNet

/-- `IpAuthHeader::set_raw_icv(&mut self, raw_icv)`: same two checks as `new`, then the copy and
    `raw_icv_len = (len / 4) as u8` (the struct is modelled by its observable ICV, see NetAuth). -/
def authSetRawIcv (h : IpAuthHeader) (rawIcv : Bytes) : Except IcvLenError Unit × IpAuthHeader :=
  if rawIcv.length > 1016 then (.error (.tooBig rawIcv.length), h)
  else if 0 ≠ rawIcv.length % 4 then (.error (.unaligned rawIcv.length), h)
  else (.ok (), { h with rawIcv := rawIcv })

/-- `Ipv6RawExtHeader::set_payload(&mut self, payload)` -/
def rawExtSetPayload (h : Ipv6RawExtHeader) (payload : Bytes) :
    Except ExtPayloadLenError Unit × Ipv6RawExtHeader :=
  if payload.length < 6 then (.error (.tooSmall payload.length), h)
  else if payload.length > 2046 then (.error (.tooBig payload.length), h)
  else if 0 ≠ (payload.length + 2) % 8 then (.error (.unaligned payload.length), h)
  else (.ok (), { h with payload := payload })

end Exts

/-! ## ARP (`Arp.new` is part of the C08 codec model) -/
section Arp
open EpModel.Codec

inductive ArpAddrError where
  | lenNonMatching (a b : Nat)
  | lenTooBig (n : Nat)
  deriving DecidableEq, Repr

/-- `ArpPacket::set_hw_addrs(&mut self, sender_hw_addr, target_hw_addr)` -/
def arpSetHwAddrs (h : Arp) (shw thw : Bytes) : Except ArpAddrError Unit × Arp :=
  if shw.length ≠ thw.length then (.error (.lenNonMatching shw.length thw.length), h)
  else if shw.length > 255 then (.error (.lenTooBig shw.length), h)
  else (.ok (), { h with shw := shw, thw := thw })

/-- `ArpPacket::set_protocol_addrs(&mut self, sender_protocol_addr, target_protocol_addr)` -/
def arpSetProtocolAddrs (h : Arp) (sp tp : Bytes) : Except ArpAddrError Unit × Arp :=
  if sp.length ≠ tp.length then (.error (.lenNonMatching sp.length tp.length), h)
  else if sp.length > 255 then (.error (.lenTooBig sp.length), h)
  else (.ok (), { h with sp := sp, tp := tp })

end Arp

end EpModel.Setters
