import EpModel.Model.Ndp
import EpModel.Model.Igmp
import EpModel.Model.ArpView
import EpModel.Spec.ViewData
/-
  Abstraction of the model's typed values (which mirror the Rust enums / structs) to the generic
  `Spec.View` vocabulary (kind name, code name, named field values).  The driver prints model values
  through these functions, and the C17 theorems compare them with what the format tables prescribe.
  The functions only rename: they are injective on each type (proved in Props/C17).
-/
namespace EpModel.View
open EpModel EpModel.Spec

def ofBool (b : Bool) : Val := .n (if b then 1 else 0)

def DestUnreachableHeader.view : DestUnreachableHeader → String × List (String × Val)
  | .network => ("Network", [])
  | .host => ("Host", [])
  | .protocol => ("Protocol", [])
  | .port => ("Port", [])
  | .fragmentationNeeded m => ("FragmentationNeeded", [("mtu", .n m)])
  | .sourceRouteFailed => ("SourceRouteFailed", [])
  | .networkUnknown => ("NetworkUnknown", [])
  | .hostUnknown => ("HostUnknown", [])
  | .isolated => ("Isolated", [])
  | .networkProhibited => ("NetworkProhibited", [])
  | .hostProhibited => ("HostProhibited", [])
  | .tosNetwork => ("TosNetwork", [])
  | .tosHost => ("TosHost", [])
  | .filterProhibited => ("FilterProhibited", [])
  | .hostPrecedenceViolation => ("HostPrecedenceViolation", [])
  | .precedenceCutoff => ("PrecedenceCutoff", [])

def RedirectCode.name : RedirectCode → String
  | .redirectForNetwork => "RedirectForNetwork"
  | .redirectForHost => "RedirectForHost"
  | .redirectForTypeOfServiceAndNetwork => "RedirectForTypeOfServiceAndNetwork"
  | .redirectForTypeOfServiceAndHost => "RedirectForTypeOfServiceAndHost"

def TimeExceededCode4.name : TimeExceededCode4 → String
  | .ttlExceededInTransit => "TtlExceededInTransit"
  | .fragmentReassemblyTimeExceeded => "FragmentReassemblyTimeExceeded"

def EchoHeader.fields (h : EchoHeader) : List (String × Val) := [("id", .n h.id), ("seq", .n h.seq)]

def TimestampMessage.fields (m : TimestampMessage) : List (String × Val) :=
  [("id", .n m.id), ("seq", .n m.seq), ("orig", .n m.originate), ("recv", .n m.receive),
   ("xmit", .n m.transmit)]

def Icmpv4Type.view : Icmpv4Type → View
  | .unknown t c b => ⟨"Unknown", "", [("type", .n t), ("code", .n c), ("b58", .b b)]⟩
  | .echoReply h => ⟨"EchoReply", "", h.fields⟩
  | .destinationUnreachable h => ⟨"DestinationUnreachable", h.view.1, h.view.2⟩
  | .redirect c gw => ⟨"Redirect", c.name, [("gw", .b gw)]⟩
  | .echoRequest h => ⟨"EchoRequest", "", h.fields⟩
  | .timeExceeded c => ⟨"TimeExceeded", c.name, []⟩
  | .parameterProblem (.pointerIndicatesError p) =>
      ⟨"ParameterProblem", "PointerIndicatesError", [("ptr", .n p)]⟩
  | .parameterProblem .missingRequiredOption => ⟨"ParameterProblem", "MissingRequiredOption", []⟩
  | .parameterProblem .badLength => ⟨"ParameterProblem", "BadLength", []⟩
  | .timestampRequest m => ⟨"TimestampRequest", "", m.fields⟩
  | .timestampReply m => ⟨"TimestampReply", "", m.fields⟩

def DestUnreachableCode6.name : DestUnreachableCode6 → String
  | .noRoute => "NoRoute" | .prohibited => "Prohibited" | .beyondScope => "BeyondScope"
  | .address => "Address" | .port => "Port"
  | .sourceAddressFailedPolicy => "SourceAddressFailedPolicy" | .rejectRoute => "RejectRoute"

def TimeExceededCode6.name : TimeExceededCode6 → String
  | .hopLimitExceeded => "HopLimitExceeded"
  | .fragmentReassemblyTimeExceeded => "FragmentReassemblyTimeExceeded"

def ParameterProblemCode6.name : ParameterProblemCode6 → String
  | .erroneousHeaderField => "ErroneousHeaderField"
  | .unrecognizedNextHeader => "UnrecognizedNextHeader"
  | .unrecognizedIpv6Option => "UnrecognizedIpv6Option"
  | .ipv6FirstFragmentIncompleteHeaderChain => "Ipv6FirstFragmentIncompleteHeaderChain"
  | .srUpperLayerHeaderError => "SrUpperLayerHeaderError"
  | .unrecognizedNextHeaderByIntermediateNode => "UnrecognizedNextHeaderByIntermediateNode"
  | .extensionHeaderTooBig => "ExtensionHeaderTooBig"
  | .extensionHeaderChainTooLong => "ExtensionHeaderChainTooLong"
  | .tooManyExtensionHeaders => "TooManyExtensionHeaders"
  | .tooManyOptionsInExtensionHeader => "TooManyOptionsInExtensionHeader"
  | .optionTooBig => "OptionTooBig"

def Icmpv6Type.view : Icmpv6Type → View
  | .unknown t c b => ⟨"Unknown", "", [("type", .n t), ("code", .n c), ("b58", .b b)]⟩
  | .destinationUnreachable c => ⟨"DestinationUnreachable", c.name, []⟩
  | .packetTooBig m => ⟨"PacketTooBig", "", [("mtu", .n m)]⟩
  | .timeExceeded c => ⟨"TimeExceeded", c.name, []⟩
  | .parameterProblem c p => ⟨"ParameterProblem", c.name, [("ptr", .n p)]⟩
  | .echoRequest h => ⟨"EchoRequest", "", h.fields⟩
  | .echoReply h => ⟨"EchoReply", "", h.fields⟩
  | .routerSolicitation => ⟨"RouterSolicitation", "", []⟩
  | .routerAdvertisement h =>
      ⟨"RouterAdvertisement", "",
       [("hop", .n h.curHopLimit), ("m", ofBool h.managedAddressConfig), ("o", ofBool h.otherConfig),
        ("life", .n h.routerLifetime)]⟩
  | .neighborSolicitation => ⟨"NeighborSolicitation", "", []⟩
  | .neighborAdvertisement h =>
      ⟨"NeighborAdvertisement", "",
       [("r", ofBool h.router), ("s", ofBool h.solicited), ("o", ofBool h.override)]⟩
  | .redirect => ⟨"Redirect", "", []⟩

def Payload6Kind.name : Payload6Kind → String
  | .destinationUnreachable => "DestinationUnreachable" | .packetTooBig => "PacketTooBig"
  | .timeExceeded => "TimeExceeded" | .parameterProblem => "ParameterProblem"
  | .echoRequest => "EchoRequest" | .echoReply => "EchoReply"
  | .routerSolicitation => "RouterSolicitation" | .routerAdvertisement => "RouterAdvertisement"
  | .neighborSolicitation => "NeighborSolicitation"
  | .neighborAdvertisement => "NeighborAdvertisement" | .redirect => "Redirect" | .raw => "Raw"

/-- accessors of an accepted payload slice of kind `k` over payload bytes `p` (fields of the fixed
    part as the per-type accessors return them: `reachable_time`, `retrans_timer`,
    `target_address`, `destination_address`). -/
def Payload6Kind.fixedFields (k : Payload6Kind) (p : Bytes) : List (String × Val) :=
  match k with
  | .routerAdvertisement => [("reachable", .n (be32 p 0)), ("retrans", .n (be32 p 4))]
  | .neighborSolicitation => [("target", .b (sub p 0 16))]
  | .neighborAdvertisement => [("target", .b (sub p 0 16))]
  | .redirect => [("target", .b (sub p 0 16)), ("dest", .b (sub p 16 16))]
  | _ => []

def NdpKind.name : NdpKind → String
  | .sourceLinkLayerAddress => "SourceLinkLayerAddress"
  | .targetLinkLayerAddress => "TargetLinkLayerAddress"
  | .prefixInformation => "PrefixInformation"
  | .redirectedHeader => "RedirectedHeader"
  | .mtu => "Mtu"
  | .unknown => "Unknown"

/-- the accessors of each option slice type: `link_layer_address()`, the prefix information getters,
    `redirected_packet()`, `mtu()`, `option_type()` + `data()`; the first field is the window of
    `as_bytes()`. -/
def NdpOpt.view (o : NdpOpt) : View :=
  let s := o.bytes
  let w : String × Val := ("w", .w o.off s.length)
  match o.kind with
  | .sourceLinkLayerAddress => ⟨"SourceLinkLayerAddress", "", [w, ("addr", .w (o.off + 2) (s.length - 2))]⟩
  | .targetLinkLayerAddress => ⟨"TargetLinkLayerAddress", "", [w, ("addr", .w (o.off + 2) (s.length - 2))]⟩
  | .prefixInformation =>
      ⟨"PrefixInformation", "",
       [w, ("plen", .n (bAt s 2)), ("l", ofBool (bitSet (bAt s 3) 128)),
        ("a", ofBool (bitSet (bAt s 3) 64)), ("valid", .n (be32 s 4)), ("pref", .n (be32 s 8)),
        ("prefix", .b (sub s 16 16))]⟩
  | .redirectedHeader => ⟨"RedirectedHeader", "", [w, ("pkt", .w (o.off + 8) (s.length - 8))]⟩
  | .mtu => ⟨"Mtu", "", [w, ("mtu", .n (be32 s 4))]⟩
  | .unknown => ⟨"Unknown", "", [w, ("type", .n (bAt s 0)), ("data", .w (o.off + 2) (s.length - 2))]⟩

def NdpErr.view : NdpErr → View
  | .unexpectedEndOfSlice i e a => ⟨"UnexpectedEndOfSlice", "", [("id", .n i), ("exp", .n e), ("act", .n a)]⟩
  | .zeroLength i => ⟨"ZeroLength", "", [("id", .n i)]⟩
  | .unexpectedSize i e a => ⟨"UnexpectedSize", "", [("id", .n i), ("exp", .n e), ("act", .n a)]⟩
  | .unexpectedHeader ei ai eu au =>
      ⟨"UnexpectedHeader", "", [("eid", .n ei), ("aid", .n ai), ("eu", .n eu), ("au", .n au)]⟩

def IgmpType.view : IgmpType → View
  | .membershipQuery r g => ⟨"MembershipQuery", "", [("max_resp", .n r), ("group", .b g)]⟩
  | .membershipQueryWithSources r g b8 q n =>
      ⟨"MembershipQueryWithSources", "",
       [("max_resp_code", .n r), ("group", .b g), ("raw8", .n b8), ("flags", .n (queryFlags b8)),
        ("s", ofBool (querySFlag b8)), ("qrv", .n (queryQrv b8)), ("qqic", .n q), ("nsrc", .n n)]⟩
  | .membershipReportV1 g => ⟨"MembershipReportV1", "", [("group", .b g)]⟩
  | .membershipReportV2 g => ⟨"MembershipReportV2", "", [("group", .b g)]⟩
  | .membershipReportV3 f n => ⟨"MembershipReportV3", "", [("flags", .b f), ("nrec", .n n)]⟩
  | .leaveGroup g => ⟨"LeaveGroup", "", [("group", .b g)]⟩
  | .unknown t b1 b47 => ⟨"Unknown", "", [("type", .n t), ("b1", .n b1), ("b47", .b b47)]⟩

def GroupRecordHeader.view (h : GroupRecordHeader) : View :=
  ⟨"GroupRecord", "", [("type", .n h.recordType), ("aux", .n h.auxDataLen), ("nsrc", .n h.numOfSources),
                       ("addr", .b h.multicastAddress)]⟩

def ArpEthIpv4Packet.view (p : ArpEthIpv4Packet) : View :=
  ⟨"ArpEthIpv4", "", [("op", .n p.operation), ("smac", .b p.senderMac), ("sip", .b p.senderIpv4),
                      ("tmac", .b p.targetMac), ("tip", .b p.targetIpv4)]⟩

def ArpEthIpv4FromError.view : ArpEthIpv4FromError → String × Nat
  | .nonMatchingHwType t => ("NonMatchingHwType", t)
  | .nonMatchingProtocolType t => ("NonMatchingProtocolType", t)
  | .nonMatchingHwAddrSize n => ("NonMatchingHwAddrSize", n)
  | .nonMatchingProtoAddrSize n => ("NonMatchingProtoAddrSize", n)

end EpModel.View
