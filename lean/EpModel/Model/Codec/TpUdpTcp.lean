import EpModel.Model.Codec.LinkCommon
/-
  UDP and TCP header codecs, following transport/udp_header.rs (+ udp_header_slice.rs),
  transport/tcp_header.rs, transport/tcp_header_slice.rs and `TcpOptions` of
  transport/tcp_options.rs (`len` + 40 byte buffer; raw option bytes, the option elements
  themselves belong to C13).
-/
namespace EpModel.Codec
open EpModel

/-! ## UDP -/

structure Udp where
  sp : Nat
  dp : Nat
  len : Nat
  ck : Nat
deriving DecidableEq, Repr

namespace Udp

def WF (h : Udp) : Prop := h.sp < 65536 ∧ h.dp < 65536 ∧ h.len < 65536 ∧ h.ck < 65536
instance (h : Udp) : Decidable h.WF := by unfold WF; infer_instance

def headerLen (_ : Udp) : Nat := 8

/-- `UdpHeader::to_bytes` -/
def toBytes (h : Udp) : Bytes := enc16 h.sp ++ enc16 h.dp ++ enc16 h.len ++ enc16 h.ck

/-- `UdpHeader::write`: one `write_all(&self.to_bytes())`. -/
def writeOut (h : Udp) : Bytes := toBytes h

/-- `UdpHeader::from_slice` -/
def fromSlice (b : Bytes) : Except Err (Udp × Bytes) :=
  if b.length < 8 then .error (lenErrSlice 8 b.length "UdpHeader")
  else .ok ({ sp := be16 b 0, dp := be16 b 2, len := be16 b 4, ck := be16 b 6 }, b.drop 8)

def sampleMax : Udp := { sp := 65535, dp := 65535, len := 65535, ck := 65535 }

end Udp

/-! ## TCP -/

/-- `TcpOptions { len: u8, buf: [u8; 40] }` -/
structure TcpOpts where
  len : Nat
  buf : Bytes
deriving DecidableEq, Repr

namespace TcpOpts

/-- `TcpOptions::try_from_slice` -/
def tryFromSlice (d : Bytes) : Except Err TcpOpts :=
  if 40 < d.length then .error (.other s!"NotEnoughSpace({d.length})")
  else
    let len := d.length % 256
    .ok { len := ((len >>> 2) <<< 2) % 256 + (if (len &&& 0b11) ≠ 0 then 4 else 0),
          buf := d ++ zeros (40 - d.length) }

/-- `TcpOptions::as_slice` -/
def asSlice (o : TcpOpts) : Bytes := o.buf.take o.len

/-- `TcpOptions::data_offset`: `MIN_DATA_OFFSET + (len >> 2)` in `u8`. -/
def dataOffset (o : TcpOpts) : Nat := 5 + (o.len >>> 2)

/-- invariant of every publicly constructible value: length a multiple of 4 up to 40, 40 byte
    buffer whose unused part is zero. -/
def WF (o : TcpOpts) : Prop :=
  o.len ≤ 40 ∧ o.len % 4 = 0 ∧ o.buf.length = 40 ∧ o.buf.drop o.len = zeros (40 - o.len)
instance (o : TcpOpts) : Decidable o.WF := by unfold WF; infer_instance

end TcpOpts

structure Tcp where
  sp : Nat
  dp : Nat
  seq : Nat
  ack : Nat
  ns : Bool
  fin : Bool
  syn : Bool
  rst : Bool
  psh : Bool
  ackf : Bool
  urg : Bool
  ece : Bool
  cwr : Bool
  win : Nat
  ck : Nat
  urgp : Nat
  opts : TcpOpts
deriving DecidableEq, Repr

namespace Tcp

def WF (h : Tcp) : Prop :=
  h.sp < 65536 ∧ h.dp < 65536 ∧ h.seq < 4294967296 ∧ h.ack < 4294967296 ∧
  h.win < 65536 ∧ h.ck < 65536 ∧ h.urgp < 65536 ∧ h.opts.WF
instance (h : Tcp) : Decidable h.WF := by unfold WF; infer_instance

/-- `TcpHeader::header_len` -/
def headerLen (h : Tcp) : Nat := 20 + h.opts.len

/-- byte 12: `(data_offset << 4) & 0xF0`, or-ed with the ns flag. -/
def byte12 (h : Tcp) : Nat :=
  let value := ((h.opts.dataOffset <<< 4) % 256) &&& 0xF0
  if h.ns then value ||| 1 else value

/-- byte 13: the eight flags. -/
def byte13 (h : Tcp) : Nat :=
  let v := 0
  let v := if h.fin then v ||| 1 else v
  let v := if h.syn then v ||| 2 else v
  let v := if h.rst then v ||| 4 else v
  let v := if h.psh then v ||| 8 else v
  let v := if h.ackf then v ||| 16 else v
  let v := if h.urg then v ||| 32 else v
  let v := if h.ece then v ||| 64 else v
  let v := if h.cwr then v ||| 128 else v
  v

/-- the 20 fixed bytes (the same array literal appears in `write` and in `to_bytes`). -/
def fixed (h : Tcp) : Bytes :=
  enc16 h.sp ++ enc16 h.dp ++ enc32 h.seq ++ enc32 h.ack ++ [u8 h.byte12, u8 h.byte13] ++
    enc16 h.win ++ enc16 h.ck ++ enc16 h.urgp

/-- `TcpHeader::to_bytes`: fixed part, the *whole* 40 byte option buffer, then
    `set_len(self.header_len())`. -/
def toBytes (h : Tcp) : Bytes := (fixed h ++ h.opts.buf).take (headerLen h)

/-- `TcpHeader::write`: `write_all` of the fixed part, then of `options.as_slice()` when that is
    not empty. -/
def writeOut (h : Tcp) : Bytes :=
  fixed h ++ (if h.opts.asSlice.isEmpty then [] else h.opts.asSlice)

/-- `TcpHeaderSlice::to_header` (the accessors read at fixed offsets; the options are
    `slice[20..data_offset*4]` copied into a zeroed 40 byte buffer). -/
def toHeader (b : Bytes) : Tcp :=
  let dataOffset := (bAt b 12 &&& 0b1111_0000) >>> 4
  let optsSlice := sub b 20 (dataOffset * 4 - 20)
  { sp := be16 b 0, dp := be16 b 2, seq := be32 b 4, ack := be32 b 8,
    ns := (bAt b 12 &&& 1) ≠ 0,
    fin := (bAt b 13 &&& 1) ≠ 0,
    syn := (bAt b 13 &&& 2) ≠ 0,
    rst := (bAt b 13 &&& 4) ≠ 0,
    psh := (bAt b 13 &&& 8) ≠ 0,
    ackf := (bAt b 13 &&& 16) ≠ 0,
    urg := (bAt b 13 &&& 32) ≠ 0,
    ece := (bAt b 13 &&& 64) ≠ 0,
    cwr := (bAt b 13 &&& 128) ≠ 0,
    win := be16 b 14, ck := be16 b 16, urgp := be16 b 18,
    opts := { len := optsSlice.length % 256,
              buf := optsSlice ++ zeros (40 - optsSlice.length) } }

/-- `TcpHeader::from_slice` (`TcpHeaderSlice::from_slice`, then `to_header`). -/
def fromSlice (b : Bytes) : Except Err (Tcp × Bytes) :=
  if b.length < 20 then .error (lenErrSlice 20 b.length "TcpHeader")
  else
    let headerLen := (bAt b 12 &&& 0xf0) >>> 2
    if headerLen < 20 then
      .error (.content s!"DataOffsetTooSmall(data_offset={(headerLen >>> 2) % 256})")
    else if b.length < headerLen then .error (lenErrSlice headerLen b.length "TcpHeader")
    else .ok (toHeader b, b.drop headerLen)

def sampleMax : Tcp :=
  { sp := 65535, dp := 65535, seq := 4294967295, ack := 4294967295,
    ns := true, fin := true, syn := true, rst := true, psh := true, ackf := true, urg := true,
    ece := true, cwr := true, win := 65535, ck := 65535, urgp := 65535,
    opts := { len := 40, buf := List.replicate 40 255 } }

end Tcp

end EpModel.Codec
