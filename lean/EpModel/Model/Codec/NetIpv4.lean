import EpModel.Model.Codec.NetCommon
import EpModel.Model.Checksum
/-
  Model of etherparse/src/net/ipv4_header.rs (to_bytes, write, write_raw, calc_header_checksum,
  ihl, header_len, from_slice), ipv4_options.rs (try_from) and ipv4_header_slice.rs
  (from_slice, every accessor, to_header).

  `Ipv4Options` is modelled by its observable content `as_slice()` (the first `len` bytes of the
  40 byte buffer; the bytes behind are zero for every value the public API can build and are not
  observable: `PartialEq`, `Deref` and `to_bytes` — through `set_len` — stop at `len`).
  `to_bytes` is nevertheless modelled as written: 20 fixed bytes, the whole 40 byte buffer,
  then truncation to `header_len()`.
-/
namespace EpModel.CodecNet
open EpModel EpModel.Checksum

structure Ipv4Header where
  dscp : Nat
  ecn : Nat
  totalLen : Nat
  identification : Nat
  dontFragment : Bool
  moreFragments : Bool
  fragmentOffset : Nat
  timeToLive : Nat
  protocol : Nat
  headerChecksum : Nat
  source : Bytes
  destination : Bytes
  options : Bytes
  deriving DecidableEq, Repr

inductive Ipv4Err where
  | len (e : LenError)
  | unexpectedVersion (v : Nat)
  | headerLengthSmallerThanHeader (ihl : Nat)
  deriving DecidableEq, Repr

/-- `Ipv4Options::try_from(&[u8])`: `Err(BadOptionsLen{bad_len})` unless `len ≤ 40 ∧ len % 4 = 0`. -/
def Ipv4Options.tryFrom (v : Bytes) : Except Nat Bytes :=
  if v.length ≤ 40 ∧ v.length % 4 = 0 then .ok v else .error v.length

namespace Ipv4Header

def WF (h : Ipv4Header) : Prop :=
  h.dscp < 64 ∧ h.ecn < 4 ∧ h.totalLen < 65536 ∧ h.identification < 65536 ∧
  h.fragmentOffset < 8192 ∧ h.timeToLive < 256 ∧ h.protocol < 256 ∧ h.headerChecksum < 65536 ∧
  h.source.length = 4 ∧ h.destination.length = 4 ∧ h.options.length ≤ 40 ∧ h.options.length % 4 = 0

instance : DecidablePred WF := fun h => by unfold WF; infer_instance

/-- `options.len_u8()` -/
def optLenU8 (h : Ipv4Header) : Nat := h.options.length % 256
/-- `ihl()`: `(self.options.len_u8() / 4) + 5` (u8) -/
def ihl (h : Ipv4Header) : Nat := (optLenU8 h / 4 + 5) % 256
/-- `header_len()`: `MIN_LEN + options.len()` -/
def headerLen (h : Ipv4Header) : Nat := 20 + h.options.length

/-- the `flags` block: `result |= 64` if dont_fragment, `result |= 32` if more_fragments -/
def flagBits (h : Ipv4Header) : Nat :=
  let r := 0
  let r := if h.dontFragment then r ||| 64 else r
  if h.moreFragments then r ||| 32 else r

/-- `frag_and_flags`: `[flags | (frag_be[0] & 0x1f), frag_be[1]]` -/
def fragAndFlags (h : Ipv4Header) : Nat × Nat :=
  (flagBits h ||| ((h.fragmentOffset / 256 % 256) &&& 0x1f), h.fragmentOffset % 256)

/-- the 20 fixed bytes, with the checksum value passed in (`write_ipv4_header_internal`;
    `to_bytes` has its own copy of the same expressions, see `toBytes`). -/
def fixedPart (h : Ipv4Header) (cks : Nat) : Bytes :=
  [ u8 ((4 <<< 4) ||| ihl h),
    u8 (shl8 h.dscp 2 ||| h.ecn),
    u8 (h.totalLen / 256), u8 h.totalLen,
    u8 (h.identification / 256), u8 h.identification,
    u8 (fragAndFlags h).1, u8 (fragAndFlags h).2,
    u8 h.timeToLive, u8 h.protocol,
    u8 (cks / 256), u8 cks ] ++ h.source ++ h.destination

/-- `options.buf`: the 40 byte buffer. -/
def optBuf (h : Ipv4Header) : Bytes := h.options ++ zeros (40 - h.options.length)

/-- `Ipv4Header::to_bytes`: 60 byte array (stored checksum), `set_len(header_len())`. -/
def toBytes (h : Ipv4Header) : Bytes :=
  ([ u8 ((4 <<< 4) ||| ihl h),
     u8 (shl8 h.dscp 2 ||| h.ecn),
     u8 (h.totalLen / 256), u8 h.totalLen,
     u8 (h.identification / 256), u8 h.identification,
     u8 (fragAndFlags h).1, u8 (fragAndFlags h).2,
     u8 h.timeToLive, u8 h.protocol,
     u8 (h.headerChecksum / 256), u8 h.headerChecksum ] ++ h.source ++ h.destination
    ++ optBuf h).take (headerLen h)

/-- `calc_header_checksum`: Sum16BitWords chain, `ones_complement().to_be()`. -/
def calcHeaderChecksum (h : Ipv4Header) : Nat :=
  let s := add2_64 0 [u8 ((4 <<< 4) ||| ihl h), u8 (shl8 h.dscp 2 ||| h.ecn)]
  let s := add2_64 s (enc16 h.totalLen)
  let s := add2_64 s (enc16 h.identification)
  let s := add2_64 s [u8 (fragAndFlags h).1, u8 (fragAndFlags h).2]
  let s := add2_64 s [u8 h.timeToLive, u8 h.protocol]
  let s := add4_64 s h.source
  let s := add4_64 s h.destination
  let s := addSlice64 s h.options
  swap16 (onesComplement64 s)

/-- `write_ipv4_header_internal` into a `Vec`: fixed part, then `&self.options`. -/
def writeInternal (h : Ipv4Header) (cks : Nat) : Bytes := fixedPart h cks ++ h.options

/-- `write`: checksum recomputed. -/
def writeOut (h : Ipv4Header) : Bytes := writeInternal h (calcHeaderChecksum h)
/-- `write_raw`: stored checksum. -/
def writeRaw (h : Ipv4Header) : Bytes := writeInternal h h.headerChecksum

/-- the stored checksum is the one `write` would compute. -/
def ChecksumOk (h : Ipv4Header) : Prop := h.headerChecksum = calcHeaderChecksum h
instance : DecidablePred ChecksumOk := fun h => by unfold ChecksumOk; infer_instance

end Ipv4Header

/-- `Ipv4HeaderSlice`: the first `ihl*4` bytes of the input. -/
structure Ipv4HeaderSlice where
  slice : Bytes
  deriving DecidableEq, Repr

namespace Ipv4HeaderSlice

/-- `Ipv4HeaderSlice::from_slice` -/
def fromSlice (b : Bytes) : Except Ipv4Err Ipv4HeaderSlice :=
  if b.length < 20 then .error (.len (sliceLenErr 20 b.length .ipv4Header))
  else
    let version := bAt b 0 >>> 4
    let ihl := bAt b 0 &&& 0xf
    if 4 ≠ version then .error (.unexpectedVersion version)
    else if ihl < 5 then .error (.headerLengthSmallerThanHeader ihl)
    else
      let headerLength := ihl * 4
      if b.length < headerLength then
        .error (.len (sliceLenErr headerLength b.length .ipv4Header))
      else .ok { slice := b.take headerLength }

def version (s : Ipv4HeaderSlice) : Nat := bAt s.slice 0 >>> 4
def ihl (s : Ipv4HeaderSlice) : Nat := bAt s.slice 0 &&& 0xf
def dcp (s : Ipv4HeaderSlice) : Nat := bAt s.slice 1 >>> 2
def ecn (s : Ipv4HeaderSlice) : Nat := bAt s.slice 1 &&& 3
def totalLen (s : Ipv4HeaderSlice) : Nat := be16 s.slice 2
/-- `payload_len()`: `header_len = slice.len() as u16` -/
def payloadLen (s : Ipv4HeaderSlice) : Except LenError Nat :=
  let headerLen := s.slice.length % 65536
  if headerLen ≤ s.totalLen then .ok (s.totalLen - headerLen)
  else .error { required := headerLen, len := s.totalLen, src := .ipv4HeaderTotalLen,
                layer := .ipv4Packet, off := 0 }
def identification (s : Ipv4HeaderSlice) : Nat := be16 s.slice 4
def dontFragment (s : Ipv4HeaderSlice) : Bool := decide (0 ≠ bAt s.slice 6 &&& 0x40)
def moreFragments (s : Ipv4HeaderSlice) : Bool := decide (0 ≠ bAt s.slice 6 &&& 0x20)
/-- `u16::from_be_bytes([s[6] & 0x1f, s[7]])` -/
def fragmentsOffset (s : Ipv4HeaderSlice) : Nat := (bAt s.slice 6 &&& 0x1f) * 256 + bAt s.slice 7
def ttl (s : Ipv4HeaderSlice) : Nat := bAt s.slice 8
def protocol (s : Ipv4HeaderSlice) : Nat := bAt s.slice 9
def headerChecksum (s : Ipv4HeaderSlice) : Nat := be16 s.slice 10
def source (s : Ipv4HeaderSlice) : Bytes := sub s.slice 12 4
def destination (s : Ipv4HeaderSlice) : Bytes := sub s.slice 16 4
/-- `from_raw_parts(ptr.add(20), slice.len() - 20)` -/
def options (s : Ipv4HeaderSlice) : Bytes := sub s.slice 20 (s.slice.length - 20)
def isFragmentingPayload (s : Ipv4HeaderSlice) : Bool :=
  s.moreFragments || decide (0 ≠ s.fragmentsOffset)

/-- `to_header`; the options are copied with `options.len = options_slice.len() as u8`
    followed by `copy_from_slice` (lengths equal because `slice.len() - 20 ≤ 40`). -/
def toHeader (s : Ipv4HeaderSlice) : Ipv4Header :=
  { dscp := s.dcp, ecn := s.ecn, totalLen := s.totalLen, identification := s.identification,
    dontFragment := s.dontFragment, moreFragments := s.moreFragments,
    fragmentOffset := s.fragmentsOffset, timeToLive := s.ttl, protocol := s.protocol,
    headerChecksum := s.headerChecksum, source := s.source, destination := s.destination,
    options := s.options }

end Ipv4HeaderSlice

/-- `Ipv4Header::from_slice`: `rest = &slice[header.header_len()..]` -/
def Ipv4Header.fromSlice (b : Bytes) : Except Ipv4Err (Ipv4Header × Bytes) :=
  match Ipv4HeaderSlice.fromSlice b with
  | .error e => .error e
  | .ok s => .ok (s.toHeader, b.drop (Ipv4Header.headerLen s.toHeader))

/-- extreme values: all fields maximal, 40 option bytes; the checksum is the computed one. -/
def Ipv4Header.sampleMax : Ipv4Header :=
  { dscp := 63, ecn := 3, totalLen := 65535, identification := 65535, dontFragment := true,
    moreFragments := true, fragmentOffset := 8191, timeToLive := 255, protocol := 255,
    headerChecksum := 12290, source := [255, 255, 255, 255], destination := [255, 255, 255, 254],
    options := List.replicate 40 255 }

end EpModel.CodecNet
