import EpModel.Model.Basic
/-
  Common parts of the network-layer codec models (C08, network half):
  error values (err::LenError, err::ValueTooBigError), the bounded integer newtypes' checked
  constructors (IpDscp, IpEcn, IpFragOffset, Ipv6FlowLabel) and the reserved-bit tables.

  Conventions: header fields are `Nat` with explicit range predicates (`WF`), byte arrays are
  `Bytes`; `as u8`/`as u16` casts and the wrap of `<<` on `u8`/`u16` are explicit `% 2^k`;
  bit operations are the `Nat` ones (`&&&`, `|||`, `<<<`, `>>>`) at the places the code has them.
-/
namespace EpModel.CodecNet
open EpModel

inductive Layer where
  | ipv4Header | ipv4Packet | ipv6Header | ipv6FragHeader | ipAuthHeader | ipv6ExtHeader
  deriving DecidableEq, Repr

def Layer.name : Layer → String
  | .ipv4Header => "Ipv4Header"
  | .ipv4Packet => "Ipv4Packet"
  | .ipv6Header => "Ipv6Header"
  | .ipv6FragHeader => "Ipv6FragHeader"
  | .ipAuthHeader => "IpAuthHeader"
  | .ipv6ExtHeader => "Ipv6ExtHeader"

inductive LenSource where
  | slice | ipv4HeaderTotalLen
  deriving DecidableEq, Repr

def LenSource.name : LenSource → String
  | .slice => "Slice"
  | .ipv4HeaderTotalLen => "Ipv4HeaderTotalLen"

/-- err::LenError, all five fields. -/
structure LenError where
  required : Nat
  len : Nat
  src : LenSource
  layer : Layer
  off : Nat
  deriving DecidableEq, Repr

/-- the `LenError` every `from_slice` of this half produces: source `Slice`, offset 0. -/
def sliceLenErr (required len : Nat) (layer : Layer) : LenError :=
  { required := required, len := len, src := .slice, layer := layer, off := 0 }

inductive ValueType where
  | ipFragmentOffset | ipDscp | ipEcn | ipv6FlowLabel
  deriving DecidableEq, Repr

def ValueType.name : ValueType → String
  | .ipFragmentOffset => "IpFragmentOffset"
  | .ipDscp => "IpDscp"
  | .ipEcn => "IpEcn"
  | .ipv6FlowLabel => "Ipv6FlowLabel"

/-- err::ValueTooBigError -/
structure ValueTooBig where
  actual : Nat
  maxAllowed : Nat
  ty : ValueType
  deriving DecidableEq, Repr

/-- `IpDscp::try_new` (argument is a `u8`). -/
def IpDscp.tryNew (v : Nat) : Except ValueTooBig Nat :=
  if v ≤ 63 then .ok v else .error { actual := v, maxAllowed := 63, ty := .ipDscp }
/-- `IpEcn::try_new` (argument is a `u8`). -/
def IpEcn.tryNew (v : Nat) : Except ValueTooBig Nat :=
  if v ≤ 3 then .ok v else .error { actual := v, maxAllowed := 3, ty := .ipEcn }
/-- `IpFragOffset::try_new` (argument is a `u16`). -/
def IpFragOffset.tryNew (v : Nat) : Except ValueTooBig Nat :=
  if v ≤ 8191 then .ok v else .error { actual := v, maxAllowed := 8191, ty := .ipFragmentOffset }
/-- `Ipv6FlowLabel::try_new` (argument is a `u32`). -/
def Ipv6FlowLabel.tryNew (v : Nat) : Except ValueTooBig Nat :=
  if v ≤ 1048575 then .ok v else .error { actual := v, maxAllowed := 1048575, ty := .ipv6FlowLabel }

/-- `n` zero bytes (the zero-initialised part of a fixed buffer). -/
def zeros (n : Nat) : Bytes := List.replicate n 0

/-- `u8 << k` (wraps). -/
def shl8 (x k : Nat) : Nat := (x <<< k) % 256
/-- `u16 << k` (wraps). -/
def shl16 (x k : Nat) : Nat := (x <<< k) % 65536

/-! ### Reserved bits

`clearBits tbl b` clears, for every `(i, m)` in the table, the bits `m` of byte `i` of `b`.
The per-type tables list the bits the wire format reserves and the types do not store. -/

def clearBits (tbl : List (Nat × Nat)) (b : Bytes) : Bytes :=
  tbl.foldl (fun acc im => acc.set im.1 (u8 (bAt acc im.1 &&& (255 - im.2)))) b

inductive NetTy where
  | ipv6 | ipv6Frag | ipv4 | ipAuth | ipv6RawExt
  deriving DecidableEq, Repr

/-- (byte offset, reserved bit mask): IPv6 header and raw extension header have no reserved bits;
    IPv6 fragment header: byte 1 reserved, bits 1–2 of byte 3 reserved (RFC 8200 §4.5);
    IPv4: bit 7 of byte 6 (the "evil bit", RFC 791 flags bit 0); AH: bytes 2–3 (RFC 4302 §2.3). -/
def reservedTable : NetTy → List (Nat × Nat)
  | .ipv6 => []
  | .ipv6Frag => [(1, 0xff), (3, 0x06)]
  | .ipv4 => [(6, 0x80)]
  | .ipAuth => [(2, 0xff), (3, 0xff)]
  | .ipv6RawExt => []

def maskReserved (t : NetTy) (b : Bytes) : Bytes := clearBits (reservedTable t) b

end EpModel.CodecNet
