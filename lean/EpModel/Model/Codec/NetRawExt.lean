import EpModel.Model.Codec.NetCommon
/-
  Model of etherparse/src/net/ipv6_raw_ext_header.rs (new_raw, to_bytes, write, header_len,
  payload, from_slice) and ipv6_raw_ext_header_slice.rs (from_slice, accessors, to_header).

  As for the authentication header the struct (`header_length : u8` + 2046 byte buffer) is
  modelled by its observable content `payload()`; `headerLength` and the buffer are derived the
  way `new_raw` fills them and the serialisers are written over those.
-/
namespace EpModel.CodecNet
open EpModel

structure Ipv6RawExtHeader where
  nextHeader : Nat
  payload : Bytes
  deriving DecidableEq, Repr

inductive ExtPayloadLenError where
  | tooSmall (n : Nat)
  | tooBig (n : Nat)
  | unaligned (n : Nat)
  deriving DecidableEq, Repr

inductive RawExtErr where
  | len (e : LenError)
  /-- `Ipv6RawExtHeader::new_raw(..).unwrap()` in `to_header` failing (shown unreachable) -/
  | panicUnwrap
  deriving DecidableEq, Repr

namespace Ipv6RawExtHeader

def WF (h : Ipv6RawExtHeader) : Prop :=
  h.nextHeader < 256 ∧ 6 ≤ h.payload.length ∧ h.payload.length ≤ 2046 ∧
  (h.payload.length + 2) % 8 = 0

instance : DecidablePred WF := fun h => by unfold WF; infer_instance

/-- `Ipv6RawExtHeader::new_raw` -/
def newRaw (nextHeader : Nat) (payload : Bytes) : Except ExtPayloadLenError Ipv6RawExtHeader :=
  if payload.length < 6 then .error (.tooSmall payload.length)
  else if payload.length > 2046 then .error (.tooBig payload.length)
  else if 0 ≠ (payload.length + 2) % 8 then .error (.unaligned payload.length)
  else .ok { nextHeader := nextHeader, payload := payload }

/-- field `header_length`: `((payload.len() - 6) / 8) as u8` -/
def headerLength (h : Ipv6RawExtHeader) : Nat := ((h.payload.length - 6) / 8) % 256
/-- field `payload_buffer` -/
def payloadBuffer (h : Ipv6RawExtHeader) : Bytes := h.payload ++ zeros (2046 - h.payload.length)
/-- `payload()`: `&buffer[..6 + header_length*8]` -/
def payloadAcc (h : Ipv6RawExtHeader) : Bytes := (payloadBuffer h).take (6 + headerLength h * 8)
/-- `header_len()`: `2 + (6 + header_length*8)` -/
def headerLen (h : Ipv6RawExtHeader) : Nat := 2 + (6 + headerLength h * 8)

/-- `to_bytes`: `[next_header, header_length]` then `payload()` -/
def toBytes (h : Ipv6RawExtHeader) : Bytes := [u8 h.nextHeader, u8 (headerLength h)] ++ payloadAcc h
/-- `write` into a `Vec` (same two `write_all` parts) -/
def writeOut (h : Ipv6RawExtHeader) : Bytes := [u8 h.nextHeader, u8 (headerLength h)] ++ payloadAcc h

end Ipv6RawExtHeader

structure Ipv6RawExtHeaderSlice where
  slice : Bytes
  deriving DecidableEq, Repr

namespace Ipv6RawExtHeaderSlice

/-- `Ipv6RawExtHeaderSlice::from_slice` -/
def fromSlice (b : Bytes) : Except RawExtErr Ipv6RawExtHeaderSlice :=
  if b.length < 8 then .error (.len (sliceLenErr 8 b.length .ipv6ExtHeader))
  else
    let len := (bAt b 1 + 1) * 8
    if b.length < len then .error (.len (sliceLenErr len b.length .ipv6ExtHeader))
    else .ok { slice := b.take len }

def nextHeader (s : Ipv6RawExtHeaderSlice) : Nat := bAt s.slice 0
/-- `from_raw_parts(ptr.add(2), slice.len() - 2)` -/
def payload (s : Ipv6RawExtHeaderSlice) : Bytes := sub s.slice 2 (s.slice.length - 2)

/-- `to_header`: `Ipv6RawExtHeader::new_raw(..).unwrap()`; `none` = the unwrap panics -/
def toHeader (s : Ipv6RawExtHeaderSlice) : Option Ipv6RawExtHeader :=
  match Ipv6RawExtHeader.newRaw s.nextHeader s.payload with
  | .ok h => some h
  | .error _ => none

end Ipv6RawExtHeaderSlice

/-- `Ipv6RawExtHeader::from_slice` -/
def Ipv6RawExtHeader.fromSlice (b : Bytes) : Except RawExtErr (Ipv6RawExtHeader × Bytes) :=
  match Ipv6RawExtHeaderSlice.fromSlice b with
  | .error e => .error e
  | .ok s =>
    match s.toHeader with
    | none => .error .panicUnwrap
    | some h => .ok (h, b.drop s.slice.length)

/-- extreme values: 2046 payload bytes (header_ext_len 255). -/
def Ipv6RawExtHeader.sampleMax : Ipv6RawExtHeader :=
  { nextHeader := 255, payload := List.replicate 2046 255 }

end EpModel.CodecNet
