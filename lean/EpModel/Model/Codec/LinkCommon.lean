import EpModel.Model.Basic
/-
  Shared pieces of the link / ARP / transport header codec models (C08, family `enc`):
  error values, the slice writer result, small byte helpers.  Core Lean only.
-/
namespace EpModel.Codec
open EpModel

/-- `err::LenError` (the `layer_start_offset` of every single-header decoder is the constant 0). -/
structure LenErr where
  req : Nat
  len : Nat
  src : String      -- LenSource
  layer : String    -- err::Layer
deriving DecidableEq, Repr

/-- error values of the single-header decoders / checked constructors.
    `content` carries the canonical text of the content error (enum variant + fields),
    `tooBig` is `err::ValueTooBigError`, `space` is `err::SliceWriteSpaceError`. -/
inductive Err where
  | len (e : LenErr)
  | content (what : String)
  | tooBig (actual maxAllowed : Nat) (vt : String)
  | space (req len : Nat) (layer : String)
  | other (what : String)
deriving DecidableEq, Repr

def Err.render : Err → String
  | .len e => s!"err(len(req={e.req},len={e.len},src={e.src},layer={e.layer},off=0))"
  | .content w => s!"err(content({w}))"
  | .tooBig a m vt => s!"err(toobig(actual={a},max={m},vt={vt}))"
  | .space r l layer => s!"err(space(req={r},len={l},layer={layer},off=0))"
  | .other w => s!"err({w})"

/-- the usual "slice shorter than the fixed header" error. -/
def lenErrSlice (req len : Nat) (layer : String) : Err :=
  .len { req := req, len := len, src := "Slice", layer := layer }

/-- a `bool` as the number 0 / 1. -/
def b2n (b : Bool) : Nat := if b then 1 else 0

/-- 64 bit big endian value at offset `i` (`u64::from_be_bytes`). -/
def be64 (b : Bytes) (i : Nat) : Nat := be32 b i * 4294967296 + be32 b (i + 4)

/-- `u64::to_be_bytes`. -/
def enc64 (n : Nat) : Bytes := enc32 (n / 4294967296) ++ enc32 n

@[simp] theorem enc64_length (n : Nat) : (enc64 n).length = 8 := rfl

/-- `n` zero bytes. -/
def zeros (n : Nat) : Bytes := List.replicate n 0

/-- replace the byte at `i` by `f` of it (used by the `maskReserved` tables). -/
def mapAt (b : Bytes) (i : Nat) (f : Nat → Nat) : Bytes :=
  b.take i ++ (match b.drop i with | [] => [] | x :: r => u8 (f x.toNat) :: r)

/-- zero the bytes `[i, i+n)` that exist (used by the `maskReserved` tables). -/
def zeroRange (b : Bytes) (i n : Nat) : Bytes :=
  b.take i ++ zeros (min n (b.length - i)) ++ b.drop (i + n)

end EpModel.Codec
