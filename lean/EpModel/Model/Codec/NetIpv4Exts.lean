import EpModel.Model.Codec.NetAuth
/-
  Model of etherparse/src/net/ipv4_exts.rs (write/write_internal, header_len, next_header,
  from_slice) and ipv4_exts_slice.rs (from_slice, to_header): the IPv4 "extension" composite,
  an optional authentication header selected by the protocol number 51.
-/
namespace EpModel.CodecNet
open EpModel

/-- `ip_number::AUTH` -/
def ipNumberAuth : Nat := 51

structure Ipv4Extensions where
  auth : Option IpAuthHeader
  deriving DecidableEq, Repr

/-- err::ipv4_exts::ExtsWalkError -/
inductive Ipv4ExtsWalkError where
  | extNotReferenced (missingExt : Nat)
  deriving DecidableEq, Repr

namespace Ipv4Extensions

/-- the header is present exactly if the IPv4 protocol field announces it, and is in range.
    (`{auth: None}.write(_, AUTH)` succeeds and writes nothing, but such a packet announces a
    header that is not there; `from_slice(AUTH, ..)` would read the payload as one.) -/
def WF (e : Ipv4Extensions) (startIpNumber : Nat) : Prop :=
  match e.auth with
  | none => ipNumberAuth ≠ startIpNumber
  | some h => ipNumberAuth = startIpNumber ∧ h.WF

instance (e : Ipv4Extensions) (s : Nat) : Decidable (WF e s) := by
  unfold WF; split <;> infer_instance

/-- `header_len()` -/
def headerLen (e : Ipv4Extensions) : Nat :=
  match e.auth with
  | some h => h.headerLen
  | none => 0

/-- `write` / `write_internal` into a `Vec` -/
def writeOut (e : Ipv4Extensions) (startIpNumber : Nat) : Except Ipv4ExtsWalkError Bytes :=
  match e.auth with
  | some h =>
    if ipNumberAuth = startIpNumber then .ok h.toBytes
    else .error (.extNotReferenced ipNumberAuth)
  | none => .ok []

/-- `next_header(first_next_header)` -/
def nextHeader (e : Ipv4Extensions) (first : Nat) : Except Ipv4ExtsWalkError Nat :=
  match e.auth with
  | some h =>
    if first = ipNumberAuth then .ok h.nextHeader else .error (.extNotReferenced ipNumberAuth)
  | none => .ok first

end Ipv4Extensions

structure Ipv4ExtensionsSlice where
  auth : Option IpAuthHeaderSlice
  deriving DecidableEq, Repr

namespace Ipv4ExtensionsSlice

/-- `Ipv4ExtensionsSlice::from_slice(start_ip_number, slice)` → (slice, next ip number, rest) -/
def fromSlice (startIpNumber : Nat) (b : Bytes) :
    Except IpAuthErr (Ipv4ExtensionsSlice × Nat × Bytes) :=
  if ipNumberAuth = startIpNumber then
    match IpAuthHeaderSlice.fromSlice b with
    | .error e => .error e
    | .ok s => .ok ({ auth := some s }, s.nextHeader, b.drop s.slice.length)
  else .ok ({ auth := none }, startIpNumber, b)

/-- `to_header`: `auth.map(|v| v.to_header())`; `none` = the nested `unwrap` panics -/
def toHeader (s : Ipv4ExtensionsSlice) : Option Ipv4Extensions :=
  match s.auth with
  | none => some { auth := none }
  | some a =>
    match a.toHeader with
    | some h => some { auth := some h }
    | none => none

end Ipv4ExtensionsSlice

/-- `Ipv4Extensions::from_slice`: `Ipv4ExtensionsSlice::from_slice(..).map(|v| (v.0.to_header(), v.1, v.2))` -/
def Ipv4Extensions.fromSlice (startIpNumber : Nat) (b : Bytes) :
    Except IpAuthErr (Ipv4Extensions × Nat × Bytes) :=
  match Ipv4ExtensionsSlice.fromSlice startIpNumber b with
  | .error e => .error e
  | .ok (s, next, rest) =>
    match s.toHeader with
    | none => .error .panicUnwrap
    | some e => .ok (e, next, rest)

def Ipv4Extensions.sampleMax : Ipv4Extensions := { auth := some IpAuthHeader.sampleMax }

end EpModel.CodecNet
