import EpModel.Model.Codec.LinkCommon
/-
  ARP packet codecs, following net/arp_packet.rs, net/arp_packet_slice.rs and
  net/arp_eth_ipv4_packet.rs.

  `ArpPacket` stores the four addresses in `[MaybeUninit<u8>; 255]` buffers of which only the
  first `hw_addr_size` / `proto_addr_size` bytes are initialised and observable; the model keeps
  exactly those prefixes (`shw`, `sp`, `thw`, `tp`) and the sizes are their lengths (that is what
  `new` / `new_unchecked` store: `sender_hw_addr.len() as u8`).
-/
namespace EpModel.Codec
open EpModel

structure Arp where
  hw : Nat         -- hw_addr_type
  proto : Nat      -- proto_addr_type
  op : Nat         -- operation
  shw : Bytes
  sp : Bytes
  thw : Bytes
  tp : Bytes
deriving DecidableEq, Repr

namespace Arp

/-- the invariant `ArpPacket::new` establishes. -/
def WF (h : Arp) : Prop :=
  h.hw < 65536 ∧ h.proto < 65536 ∧ h.op < 65536 ∧
  h.shw.length ≤ 255 ∧ h.thw.length = h.shw.length ∧
  h.sp.length ≤ 255 ∧ h.tp.length = h.sp.length
instance (h : Arp) : Decidable h.WF := by unfold WF; infer_instance

/-- `ArpPacket::new` (checked constructor). -/
def new (hw proto op : Nat) (shw sp thw tp : Bytes) : Except Err Arp :=
  if shw.length ≠ thw.length then
    .error (.other s!"arpnew(HwAddr(LenNonMatching({shw.length},{thw.length})))")
  else if sp.length ≠ tp.length then
    .error (.other s!"arpnew(ProtoAddr(LenNonMatching({sp.length},{tp.length})))")
  else if shw.length > 255 then .error (.other s!"arpnew(HwAddr(LenTooBig({shw.length})))")
  else if sp.length > 255 then .error (.other s!"arpnew(ProtoAddr(LenTooBig({sp.length})))")
  else .ok { hw := hw, proto := proto, op := op, shw := shw, sp := sp, thw := thw, tp := tp }

/-- `hw_addr_size` (`sender_hw_addr.len() as u8`) -/
def hwSize (h : Arp) : Nat := h.shw.length % 256
/-- `proto_addr_size` -/
def protoSize (h : Arp) : Nat := h.sp.length % 256

/-- `ArpPacket::packet_len` -/
def headerLen (h : Arp) : Nat := 8 + h.hwSize * 2 + h.protoSize * 2

/-- `ArpPacket::to_bytes`: 8 fixed bytes, then the four address views
    (`from_raw_parts(buf, size)`: the first `size` bytes of each buffer). -/
def toBytes (h : Arp) : Bytes :=
  enc16 h.hw ++ enc16 h.proto ++ [u8 h.hwSize, u8 h.protoSize] ++ enc16 h.op ++
    h.shw.take h.hwSize ++ h.sp.take h.protoSize ++ h.thw.take h.hwSize ++ h.tp.take h.protoSize

/-- `ArpPacket::write`: one `write_all(&self.to_bytes())`. -/
def writeOut (h : Arp) : Bytes := toBytes h

/-- `ArpPacket::from_slice` (`ArpPacketSlice::from_slice(..).to_packet()`); the Rust function
    returns only the packet, the remainder given here is `slice[packet_len..]`. -/
def fromSlice (b : Bytes) : Except Err (Arp × Bytes) :=
  if b.length < 8 then .error (lenErrSlice 8 b.length "Arp")
  else
    let hs := bAt b 4
    let ps := bAt b 5
    let minLen := 8 + hs * 2 + ps * 2
    if b.length < minLen then
      .error (.len { req := minLen, len := b.length, src := "ArpAddrLengths", layer := "Arp" })
    else
      .ok ({ hw := be16 b 0, proto := be16 b 2, op := be16 b 6,
             shw := sub b 8 hs,
             sp := sub b (8 + hs) ps,
             thw := sub b (8 + hs + ps) hs,
             tp := sub b (8 + hs * 2 + ps) ps }, b.drop minLen)

def sampleMax : Arp :=
  { hw := 65535, proto := 65535, op := 65535,
    shw := List.replicate 255 255, sp := List.replicate 255 254,
    thw := List.replicate 255 1, tp := List.replicate 255 0 }
def sampleEmpty : Arp := { hw := 1, proto := 2048, op := 1, shw := [], sp := [], thw := [], tp := [] }

end Arp

/-! ## `ArpEthIpv4Packet` -/

structure ArpEth where
  op : Nat
  smac : Bytes
  sip : Bytes
  tmac : Bytes
  tip : Bytes
deriving DecidableEq, Repr

namespace ArpEth

def WF (h : ArpEth) : Prop :=
  h.op < 65536 ∧ h.smac.length = 6 ∧ h.sip.length = 4 ∧ h.tmac.length = 6 ∧ h.tip.length = 4
instance (h : ArpEth) : Decidable h.WF := by unfold WF; infer_instance

def headerLen (_ : ArpEth) : Nat := 28

/-- `ArpEthIpv4Packet::to_bytes` -/
def toBytes (h : ArpEth) : Bytes :=
  enc16 1 ++ enc16 0x0800 ++ [6, 4] ++ enc16 h.op ++ h.smac ++ h.sip ++ h.tmac ++ h.tip

/-- `ArpEthIpv4Packet::to_arp_packet` -/
def toArp (h : ArpEth) : Arp :=
  { hw := 1, proto := 0x0800, op := h.op, shw := h.smac, sp := h.sip, thw := h.tmac, tp := h.tip }

/-- the second serialisation path: `self.to_arp_packet().to_bytes()`. -/
def writeOut (h : ArpEth) : Bytes := (toArp h).toBytes

/-- `ArpPacket::try_eth_ipv4` -/
def tryEthIpv4 (a : Arp) : Except Err ArpEth :=
  if a.hw ≠ 1 then .error (.other s!"eth4(NonMatchingHwType({a.hw}))")
  else if a.proto ≠ 0x0800 then .error (.other s!"eth4(NonMatchingProtocolType({a.proto}))")
  else if a.hwSize ≠ 6 then .error (.other s!"eth4(NonMatchingHwAddrSize({a.hwSize}))")
  else if a.protoSize ≠ 4 then .error (.other s!"eth4(NonMatchingProtoAddrSize({a.protoSize}))")
  else .ok { op := a.op, smac := a.shw.take 6, sip := a.sp.take 4, tmac := a.thw.take 6, tip := a.tp.take 4 }

/-- decoding door of this type: `ArpPacket::from_slice(slice)?.try_eth_ipv4()`. -/
def fromSlice (b : Bytes) : Except Err (ArpEth × Bytes) :=
  match Arp.fromSlice b with
  | .error e => .error e
  | .ok (a, rest) =>
    match tryEthIpv4 a with
    | .error e => .error e
    | .ok h => .ok (h, rest)

def sampleMax : ArpEth :=
  { op := 65535, smac := [255, 255, 255, 255, 255, 255], sip := [255, 255, 255, 255],
    tmac := [0, 1, 2, 3, 4, 5], tip := [255, 0, 255, 0] }

end ArpEth

end EpModel.Codec
