import EpModel.Model.Codec.NetCommon
/-
  Model of etherparse/src/net/ip_auth_header.rs (new, to_bytes, write, header_len, raw_icv,
  from_slice) and ip_auth_header_slice.rs (from_slice, accessors, to_header).

  The struct stores `raw_icv_len : u8` (in 4 byte units) and a 1016 byte buffer; it is modelled by
  its observable content `raw_icv()` (what `PartialEq`/`Debug` look at); `rawIcvLen` and the
  buffer are derived the way `new` fills them, and `to_bytes`/`write`/`header_len` are written
  over those as in the code (whole buffer appended, then `set_len(header_len())`).
-/
namespace EpModel.CodecNet
open EpModel

structure IpAuthHeader where
  nextHeader : Nat
  spi : Nat
  sequenceNumber : Nat
  rawIcv : Bytes
  deriving DecidableEq, Repr

inductive IcvLenError where
  | tooBig (n : Nat)
  | unaligned (n : Nat)
  deriving DecidableEq, Repr

inductive IpAuthErr where
  | len (e : LenError)
  | zeroPayloadLen
  /-- `IpAuthHeader::new(..).unwrap()` in `to_header` failing (shown unreachable) -/
  | panicUnwrap
  deriving DecidableEq, Repr

namespace IpAuthHeader

def WF (h : IpAuthHeader) : Prop :=
  h.nextHeader < 256 ∧ h.spi < 4294967296 ∧ h.sequenceNumber < 4294967296 ∧
  h.rawIcv.length ≤ 1016 ∧ h.rawIcv.length % 4 = 0

instance : DecidablePred WF := fun h => by unfold WF; infer_instance

/-- `IpAuthHeader::new` -/
def new (nextHeader spi seq : Nat) (rawIcv : Bytes) : Except IcvLenError IpAuthHeader :=
  if rawIcv.length > 1016 then .error (.tooBig rawIcv.length)
  else if 0 ≠ rawIcv.length % 4 then .error (.unaligned rawIcv.length)
  else .ok { nextHeader := nextHeader, spi := spi, sequenceNumber := seq, rawIcv := rawIcv }

/-- field `raw_icv_len`: `(raw_icv.len() / 4) as u8` -/
def rawIcvLen (h : IpAuthHeader) : Nat := (h.rawIcv.length / 4) % 256
/-- field `raw_icv_buffer`: zero-initialised, `[..raw_icv.len()]` overwritten -/
def rawIcvBuffer (h : IpAuthHeader) : Bytes := h.rawIcv ++ zeros (1016 - h.rawIcv.length)
/-- `raw_icv()`: `&buffer[..raw_icv_len*4]` -/
def rawIcvAcc (h : IpAuthHeader) : Bytes := (rawIcvBuffer h).take (rawIcvLen h * 4)
/-- `header_len()`: `12 + raw_icv_len*4` -/
def headerLen (h : IpAuthHeader) : Nat := 12 + rawIcvLen h * 4

/-- the 12 fixed bytes (`raw_icv_len + 1` is a `u8` addition; `debug_assert!(len != 0xff)`) -/
def fixedPart (h : IpAuthHeader) : Bytes :=
  [ u8 h.nextHeader, u8 (rawIcvLen h + 1), 0, 0 ] ++ enc32 h.spi ++ enc32 h.sequenceNumber

/-- `to_bytes`: fixed bytes, the whole buffer, `set_len(header_len())` -/
def toBytes (h : IpAuthHeader) : Bytes := (fixedPart h ++ rawIcvBuffer h).take (headerLen h)

/-- `write` into a `Vec`: fixed bytes, then `raw_icv()` -/
def writeOut (h : IpAuthHeader) : Bytes := fixedPart h ++ rawIcvAcc h

end IpAuthHeader

structure IpAuthHeaderSlice where
  slice : Bytes
  deriving DecidableEq, Repr

namespace IpAuthHeaderSlice

/-- `IpAuthHeaderSlice::from_slice` -/
def fromSlice (b : Bytes) : Except IpAuthErr IpAuthHeaderSlice :=
  if b.length < 12 then .error (.len (sliceLenErr 12 b.length .ipAuthHeader))
  else
    let payloadLenEnc := bAt b 1
    if payloadLenEnc < 1 then .error .zeroPayloadLen
    else
      let len := (payloadLenEnc + 2) * 4
      if b.length < len then .error (.len (sliceLenErr len b.length .ipAuthHeader))
      else .ok { slice := b.take len }

def nextHeader (s : IpAuthHeaderSlice) : Nat := bAt s.slice 0
def spi (s : IpAuthHeaderSlice) : Nat := be32 s.slice 4
def sequenceNumber (s : IpAuthHeaderSlice) : Nat := be32 s.slice 8
/-- `&self.slice[12..]` -/
def rawIcv (s : IpAuthHeaderSlice) : Bytes := s.slice.drop 12

/-- `to_header`: `IpAuthHeader::new(..).unwrap()`; `none` = the unwrap panics -/
def toHeader (s : IpAuthHeaderSlice) : Option IpAuthHeader :=
  match IpAuthHeader.new s.nextHeader s.spi s.sequenceNumber s.rawIcv with
  | .ok h => some h
  | .error _ => none

end IpAuthHeaderSlice

/-- `IpAuthHeader::from_slice`: `rest = &slice[s.slice().len()..]` -/
def IpAuthHeader.fromSlice (b : Bytes) : Except IpAuthErr (IpAuthHeader × Bytes) :=
  match IpAuthHeaderSlice.fromSlice b with
  | .error e => .error e
  | .ok s =>
    match s.toHeader with
    | none => .error .panicUnwrap
    | some h => .ok (h, b.drop s.slice.length)

/-- extreme values: 1016 ICV bytes (payload_len field 255). -/
def IpAuthHeader.sampleMax : IpAuthHeader :=
  { nextHeader := 255, spi := 4294967295, sequenceNumber := 4294967295,
    rawIcv := List.replicate 1016 255 }

end EpModel.CodecNet
