import EpModel.Model.Codec.LinkCommon
/-
  IGMP header codecs, following transport/igmp_header.rs, igmp_type.rs, igmp/*.rs
  (`IgmpHeader` with its seven typed message headers, `ReportGroupRecordV3Header`).
-/
namespace EpModel.Codec
open EpModel

/-- `IgmpType` with the fields of the typed message headers inlined. -/
inductive IgmpType where
  | membershipQuery (maxRespTime : Nat) (group : Bytes)
  | membershipQueryWithSources (maxRespCode : Nat) (group : Bytes) (rawByte8 qqic numSources : Nat)
  | membershipReportV1 (group : Bytes)
  | membershipReportV2 (group : Bytes)
  | membershipReportV3 (flags : Bytes) (numRecords : Nat)
  | leaveGroup (group : Bytes)
  | unknown (ty rawByte1 : Nat) (raw47 : Bytes)
deriving DecidableEq, Repr

structure Igmp where
  ty : IgmpType
  ck : Nat
deriving DecidableEq, Repr

namespace Igmp

/-- type numbers with a typed variant. -/
def typedType (t : Nat) : Bool := t == 0x11 || t == 0x12 || t == 0x16 || t == 0x17 || t == 0x22

def IgmpType.WF : IgmpType → Prop
  | .membershipQuery m g => m < 256 ∧ g.length = 4
  | .membershipQueryWithSources m g r q n => m < 256 ∧ g.length = 4 ∧ r < 256 ∧ q < 256 ∧ n < 65536
  | .membershipReportV1 g | .membershipReportV2 g | .leaveGroup g => g.length = 4
  | .membershipReportV3 f n => f.length = 2 ∧ n < 65536
  | .unknown t r raw => t < 256 ∧ r < 256 ∧ raw.length = 4 ∧ typedType t = false

instance (t : IgmpType) : Decidable (IgmpType.WF t) := by
  cases t <;> unfold IgmpType.WF <;> infer_instance

def WF (h : Igmp) : Prop := IgmpType.WF h.ty ∧ h.ck < 65536
instance (h : Igmp) : Decidable h.WF := by unfold WF; infer_instance

/-- `IgmpHeader::header_len` -/
def headerLen (h : Igmp) : Nat :=
  match h.ty with
  | .membershipQueryWithSources .. => 12
  | _ => 8

/-- the 12 byte array + `set_len(8)` shape shared by six arms of `IgmpHeader::to_bytes`. -/
def eight (t b1 ck : Nat) (b47 : Bytes) : Bytes := ([u8 t, u8 b1] ++ enc16 ck ++ b47 ++ zeros 4).take 8

/-- `IgmpHeader::to_bytes` -/
def toBytes (h : Igmp) : Bytes :=
  match h.ty with
  | .membershipQuery m g => eight 0x11 m h.ck g
  | .membershipQueryWithSources m g r q n => [0x11, u8 m] ++ enc16 h.ck ++ g ++ [u8 r, u8 q] ++ enc16 n
  | .membershipReportV1 g => eight 0x12 0 h.ck g
  | .membershipReportV2 g => eight 0x16 0 h.ck g
  | .membershipReportV3 f n => eight 0x22 0 h.ck (f ++ enc16 n)
  | .leaveGroup g => eight 0x17 0 h.ck g
  | .unknown t r raw => eight t r h.ck raw

/-- `IgmpHeader::from_slice`.  A membership query is the 8 byte IGMPv1/v2 form only when the
    slice is *exactly* 8 bytes long; with 12 or more bytes it is the IGMPv3 form, 9..11 bytes are
    a length error. -/
def fromSlice (b : Bytes) : Except Err (Igmp × Bytes) :=
  if b.length < 8 then .error (lenErrSlice 8 b.length "Igmp")
  else
    let t := bAt b 0
    let maxResp := bAt b 1
    let ck := be16 b 2
    let group := sub b 4 4
    if t = 0x11 then
      if b.length = 8 then .ok ({ ty := .membershipQuery maxResp group, ck := ck }, b.drop 8)
      else if b.length ≥ 12 then
        .ok ({ ty := .membershipQueryWithSources maxResp group (bAt b 8) (bAt b 9) (be16 b 10), ck := ck },
             b.drop 12)
      else .error (lenErrSlice 12 b.length "Igmp")
    else if t = 0x12 then .ok ({ ty := .membershipReportV1 group, ck := ck }, b.drop 8)
    else if t = 0x16 then .ok ({ ty := .membershipReportV2 group, ck := ck }, b.drop 8)
    else if t = 0x17 then .ok ({ ty := .leaveGroup group, ck := ck }, b.drop 8)
    else if t = 0x22 then .ok ({ ty := .membershipReportV3 (sub b 4 2) (be16 b 6), ck := ck }, b.drop 8)
    else .ok ({ ty := .unknown t maxResp group, ck := ck }, b.drop 8)

def sampleMax : Igmp :=
  { ty := .membershipQueryWithSources 255 [255, 255, 255, 255] 255 255 65535, ck := 65535 }
def sampleUnknown : Igmp := { ty := .unknown 255 255 [255, 255, 255, 255], ck := 65535 }
def sampleV3 : Igmp := { ty := .membershipReportV3 [255, 255] 65535, ck := 0 }

end Igmp

/-! ## `igmp::ReportGroupRecordV3Header` -/

structure IgmpRec where
  recordType : Nat
  auxDataLen : Nat
  numSources : Nat
  addr : Bytes
deriving DecidableEq, Repr

namespace IgmpRec

def WF (h : IgmpRec) : Prop :=
  h.recordType < 256 ∧ h.auxDataLen < 256 ∧ h.numSources < 65536 ∧ h.addr.length = 4
instance (h : IgmpRec) : Decidable h.WF := by unfold WF; infer_instance

def headerLen (_ : IgmpRec) : Nat := 8

/-- `ReportGroupRecordV3Header::to_bytes` -/
def toBytes (h : IgmpRec) : Bytes := [u8 h.recordType, u8 h.auxDataLen] ++ enc16 h.numSources ++ h.addr

/-- `ReportGroupRecordV3Header::from_slice` -/
def fromSlice (b : Bytes) : Except Err (IgmpRec × Bytes) :=
  if b.length < 8 then .error (lenErrSlice 8 b.length "Igmp")
  else .ok ({ recordType := bAt b 0, auxDataLen := bAt b 1, numSources := be16 b 2, addr := sub b 4 4 },
            b.drop 8)

def sampleMax : IgmpRec := { recordType := 255, auxDataLen := 255, numSources := 65535, addr := [255, 255, 255, 255] }

end IgmpRec

end EpModel.Codec
