import EpModel.Model.Codec.LinkCommon
/-
  Link layer header codecs, following the Rust code as written:
    link/ethernet2_header.rs (+ ethernet2_header_slice.rs)
    link/single_vlan_header.rs (+ single_vlan_header_slice.rs)
    link/linux_sll_header.rs (+ linux_sll_header_slice.rs, linux_sll_packet_type.rs,
                               linux_sll_protocol_type.rs, linux_nonstandard_ether_type.rs)
    link/macsec_header.rs (+ macsec_header_slice.rs)
  Integers are `Nat` (ranges in the `WF` predicates), `as u8` casts are `u8 _` (= `% 256`),
  bit operations are the `Nat` bit operations.
-/
namespace EpModel.Codec
open EpModel

/-! ## Ethernet II -/

structure Eth2 where
  dst : Bytes
  src : Bytes
  et : Nat
deriving DecidableEq, Repr

namespace Eth2

def WF (h : Eth2) : Prop := h.dst.length = 6 ∧ h.src.length = 6 ∧ h.et < 65536
instance (h : Eth2) : Decidable h.WF := by unfold WF; infer_instance

def headerLen (_ : Eth2) : Nat := 14

/-- `Ethernet2Header::to_bytes` -/
def toBytes (h : Eth2) : Bytes := h.dst ++ h.src ++ enc16 h.et

/-- `Ethernet2Header::write`: one `write_all(&self.to_bytes())`. -/
def writeOut (h : Eth2) : Bytes := toBytes h

/-- `Ethernet2Header::write_to_slice` into a slice of `cap` bytes: bytes written and length of
    the returned unused part. -/
def writeToSlice (h : Eth2) (cap : Nat) : Except Err (Bytes × Nat) :=
  if cap < 14 then .error (.space 14 cap "Ethernet2Header")
  else .ok (toBytes h, cap - 14)

/-- `Ethernet2Header::from_slice` (via `Ethernet2HeaderSlice::from_slice(..).to_header()`). -/
def fromSlice (b : Bytes) : Except Err (Eth2 × Bytes) :=
  if b.length < 14 then .error (lenErrSlice 14 b.length "Ethernet2Header")
  else .ok ({ dst := sub b 0 6, src := sub b 6 6, et := be16 b 12 }, b.drop 14)

def sampleMax : Eth2 :=
  { dst := [255, 255, 255, 255, 255, 255], src := [255, 254, 0, 1, 128, 127], et := 65535 }

end Eth2

/-! ## 802.1Q single VLAN header -/

structure Vlan where
  pcp : Nat
  dei : Bool
  vid : Nat
  et : Nat
deriving DecidableEq, Repr

namespace Vlan

def WF (h : Vlan) : Prop := h.pcp < 8 ∧ h.vid < 4096 ∧ h.et < 65536
instance (h : Vlan) : Decidable h.WF := by unfold WF; infer_instance

/-- `VlanPcp::try_new` / `VlanId::try_new` (checked constructors used to build a value). -/
def mk? (pcp : Nat) (dei : Bool) (vid et : Nat) : Except Err Vlan :=
  if pcp > 7 then .error (.tooBig pcp 7 "VlanPcp")
  else if vid > 4095 then .error (.tooBig vid 4095 "VlanId")
  else .ok { pcp := pcp, dei := dei, vid := vid, et := et }

def headerLen (_ : Vlan) : Nat := 4

/-- `SingleVlanHeader::to_bytes` -/
def toBytes (h : Vlan) : Bytes :=
  let id0 := h.vid / 256 % 256     -- id_be[0]
  [ u8 ((if h.dei then id0 ||| 0x10 else id0) ||| ((h.pcp <<< 5) % 256)),
    u8 h.vid ] ++ enc16 h.et

/-- `SingleVlanHeader::write`: one `write_all(&self.to_bytes())`. -/
def writeOut (h : Vlan) : Bytes := toBytes h

/-- `SingleVlanHeader::from_slice` -/
def fromSlice (b : Bytes) : Except Err (Vlan × Bytes) :=
  if b.length < 4 then .error (lenErrSlice 4 b.length "VlanHeader")
  else .ok ({ pcp := (bAt b 0 >>> 5) &&& 0b111,
              dei := (bAt b 0 &&& 0x10) ≠ 0,
              vid := (bAt b 0 &&& 0b1111) * 256 + bAt b 1,
              et := be16 b 2 }, b.drop 4)

def sampleMax : Vlan := { pcp := 7, dei := true, vid := 4095, et := 65535 }

end Vlan

/-! ## Linux cooked capture v1 (SLL) -/

/-- `LinuxSllProtocolType` -/
inductive SllProto where
  | ignored (v : Nat)
  | netlink (v : Nat)
  | gre (v : Nat)
  | etherType (v : Nat)
  | nonstd (v : Nat)
deriving DecidableEq, Repr

/-- `u16::from(LinuxSllProtocolType)` -/
def SllProto.val : SllProto → Nat
  | .ignored v | .netlink v | .gre v | .etherType v | .nonstd v => v

/-- `LinuxNonstandardEtherType::try_from(u16)` is `Ok` -/
def isNonstdEtherType (v : Nat) : Bool :=
  (1 ≤ v && v ≤ 9) || (0x0C ≤ v && v ≤ 0x0E) || v == 0x10 || v == 0x11 ||
  (0x15 ≤ v && v ≤ 0x1C) || (0xF5 ≤ v && v ≤ 0xFA)

/-- `LinuxSllProtocolType::try_from((ArpHardwareId, u16))` -/
def sllProtoTryFrom (hrd v : Nat) : Except Err SllProto :=
  if hrd = 824 then .ok (.netlink v)            -- NETLINK
  else if hrd = 778 then .ok (.gre v)           -- IPGRE
  else if hrd = 803 then .ok (.ignored v)       -- IEEE80211_RADIOTAP
  else if hrd = 770 then .ok (.ignored v)       -- FRAD
  else if hrd = 1 then                          -- ETHERNET
    (if isNonstdEtherType v then .ok (.nonstd v) else .ok (.etherType v))
  else .error (.content s!"UnsupportedArpHardwareId(arp_hardware_type={hrd})")

structure Sll where
  ptype : Nat
  hrd : Nat
  alen : Nat
  addr : Bytes
  proto : SllProto
deriving DecidableEq, Repr

namespace Sll

/-- which `LinuxSllProtocolType` variant belongs to which ARP hardware id (explicit table). -/
def protoConsistent (hrd : Nat) : SllProto → Bool
  | .netlink _ => hrd == 824
  | .gre _ => hrd == 778
  | .ignored _ => hrd == 803 || hrd == 770
  | .nonstd v => hrd == 1 && isNonstdEtherType v
  | .etherType v => hrd == 1 && !isNonstdEtherType v

/-- field ranges, packet type one of the 8 constants, and the protocol type variant is the one
    the ARP hardware id prescribes ("typed variant used where one exists, fields consistent"). -/
def WF (h : Sll) : Prop :=
  h.ptype ≤ 7 ∧ h.hrd < 65536 ∧ h.alen < 65536 ∧ h.addr.length = 8 ∧ h.proto.val < 65536 ∧
  protoConsistent h.hrd h.proto = true
instance (h : Sll) : Decidable h.WF := by unfold WF; infer_instance

/-- `LinuxSllPacketType::try_from(u16)` -/
def ptypeTryFrom (v : Nat) : Except Err Nat :=
  if v ≤ 7 then .ok v else .error (.content s!"UnsupportedPacketTypeField(packet_type={v})")

def headerLen (_ : Sll) : Nat := 16

/-- `LinuxSllHeader::to_bytes` -/
def toBytes (h : Sll) : Bytes :=
  enc16 h.ptype ++ enc16 h.hrd ++ enc16 h.alen ++ h.addr ++ enc16 h.proto.val

def writeOut (h : Sll) : Bytes := toBytes h

/-- `LinuxSllHeader::write_to_slice` -/
def writeToSlice (h : Sll) (cap : Nat) : Except Err (Bytes × Nat) :=
  if cap < 16 then .error (.space 16 cap "LinuxSllHeader")
  else .ok (toBytes h, cap - 16)

/-- `LinuxSllHeader::from_slice` (checks of `LinuxSllHeaderSlice::from_slice`, then `to_header`). -/
def fromSlice (b : Bytes) : Except Err (Sll × Bytes) :=
  if b.length < 16 then .error (lenErrSlice 16 b.length "LinuxSllHeader")
  else
    match ptypeTryFrom (be16 b 0) with
    | .error e => .error e
    | .ok pt =>
      match sllProtoTryFrom (be16 b 2) (be16 b 14) with
      | .error e => .error e
      | .ok proto =>
        .ok ({ ptype := pt, hrd := be16 b 2, alen := be16 b 4, addr := sub b 6 8, proto := proto },
             b.drop 16)

def sampleMax : Sll :=
  { ptype := 7, hrd := 824, alen := 65535, addr := [255, 255, 255, 255, 255, 255, 255, 255],
    proto := .netlink 65535 }
def sampleEth : Sll :=
  { ptype := 0, hrd := 1, alen := 6, addr := [1, 2, 3, 4, 5, 6, 0, 0], proto := .nonstd 0xFA }

end Sll

/-! ## MACsec SecTag -/

/-- `MacsecPType` -/
inductive MacsecPType where
  | unmodified (et : Nat)
  | modified
  | encrypted
  | encryptedUnmodified
deriving DecidableEq, Repr

structure Macsec where
  ptype : MacsecPType
  es : Bool            -- endstation_id
  scb : Bool
  an : Nat
  sl : Nat             -- short_len
  pn : Nat             -- packet_nr
  sci : Option Nat
deriving DecidableEq, Repr

namespace Macsec

def isUnmodified (h : Macsec) : Bool := match h.ptype with | .unmodified _ => true | _ => false

/-- ranges; an `Unmodified` header with short length 1 cannot be decoded
    (`InvalidUnmodifiedShortLen`) and is excluded. -/
def WF (h : Macsec) : Prop :=
  h.an < 4 ∧ h.sl < 64 ∧ h.pn < 4294967296 ∧
  (match h.sci with | some s => s < 18446744073709551616 | none => True) ∧
  (match h.ptype with | .unmodified et => et < 65536 ∧ h.sl ≠ 1 | _ => True)
instance (h : Macsec) : Decidable h.WF := by
  unfold WF; cases h.sci <;> cases h.ptype <;> infer_instance

/-- `MacsecAn::try_new`, `MacsecShortLen::try_from_u8` -/
def mk? (ptype : MacsecPType) (es scb : Bool) (an sl pn : Nat) (sci : Option Nat) : Except Err Macsec :=
  if an > 3 then .error (.tooBig an 3 "MacsecAn")
  else if sl > 63 then .error (.tooBig sl 63 "MacsecShortLen")
  else .ok { ptype := ptype, es := es, scb := scb, an := an, sl := sl, pn := pn, sci := sci }

def encryptedFlag (h : Macsec) : Bool :=
  match h.ptype with | .encrypted | .encryptedUnmodified => true | _ => false
def userdataChanged (h : Macsec) : Bool :=
  match h.ptype with | .encrypted | .modified => true | _ => false

/-- `MacsecHeader::header_len` -/
def headerLen (h : Macsec) : Nat :=
  6 + (if h.sci.isSome then 8 else 0) + (if h.isUnmodified then 2 else 0)

def tciAn (h : Macsec) : Nat :=
  (h.an &&& 0b11)
    ||| (if h.userdataChanged then 0b100 else 0)
    ||| (if h.encryptedFlag then 0b1000 else 0)
    ||| (if h.scb then 0b1_0000 else 0)
    ||| (if h.sci.isSome then 0b10_0000 else 0)
    ||| (if h.es then 0b100_0000 else 0)

/-- `MacsecHeader::to_bytes`: a 16 byte array, then `set_len`. -/
def toBytes (h : Macsec) : Bytes :=
  let et := match h.ptype with | .unmodified e => e | _ => 0
  let full : Bytes :=
    if h.sci.isSome then
      [u8 h.tciAn, u8 (h.sl &&& 0b0011_1111)] ++ enc32 h.pn ++ enc64 (h.sci.getD 0) ++ enc16 et
    else
      [u8 h.tciAn, u8 (h.sl &&& 0b0011_1111)] ++ enc32 h.pn ++ enc16 et ++ zeros 8
  full.take (6 + (if h.sci.isSome then 8 else 0) + (if h.isUnmodified then 2 else 0))

def writeOut (h : Macsec) : Bytes := toBytes h

/-- `MacsecHeader::from_slice` (`MacsecHeaderSlice::from_slice(..).to_header()`); the Rust function
    returns only the header, the remainder given here is `slice[header.len..]`. -/
def fromSlice (b : Bytes) : Except Err (Macsec × Bytes) :=
  if b.length < 6 then .error (lenErrSlice 6 b.length "MacsecHeader")
  else
    let tci := bAt b 0
    if (tci &&& 0b1000_0000) ≠ 0 then .error (.content "UnexpectedVersion")
    else
      let unmodified : Bool := (tci &&& 0b1100) = 0
      if unmodified ∧ (bAt b 1 &&& 0b0011_1111) = 1 then .error (.content "InvalidUnmodifiedShortLen")
      else
        let sciPresent : Bool := (tci &&& 0b10_0000) ≠ 0
        let req := 6 + (if unmodified then 2 else 0) + (if sciPresent then 8 else 0)
        if b.length < req then .error (lenErrSlice req b.length "MacsecHeader")
        else
          let e : Bool := (tci &&& 0b1000) ≠ 0
          let c : Bool := (tci &&& 0b100) ≠ 0
          let ptype : MacsecPType :=
            if e then (if c then .encrypted else .encryptedUnmodified)
            else if c then .modified
            else if sciPresent then .unmodified (be16 b 14)
            else .unmodified (be16 b 6)
          .ok ({ ptype := ptype,
                 es := (tci &&& 0b100_0000) ≠ 0,
                 scb := (tci &&& 0b1_0000) ≠ 0,
                 an := tci &&& 0b11,
                 sl := bAt b 1 &&& 0b0011_1111,
                 pn := be32 b 2,
                 sci := if sciPresent then some (be64 b 6) else none }, b.drop req)

def sampleMax : Macsec :=
  { ptype := .unmodified 65535, es := true, scb := true, an := 3, sl := 63, pn := 4294967295,
    sci := some 18446744073709551615 }
def sampleEnc : Macsec :=
  { ptype := .encrypted, es := false, scb := true, an := 2, sl := 1, pn := 1, sci := none }

end Macsec

end EpModel.Codec
