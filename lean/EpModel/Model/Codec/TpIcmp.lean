import EpModel.Model.Codec.LinkCommon
/-
  ICMPv4 / ICMPv6 header codecs, following transport/icmpv4_header.rs, icmpv4_slice.rs,
  icmpv4_type.rs, icmpv4/*.rs, transport/icmpv6_header.rs, icmpv6_slice.rs, icmpv6_type.rs,
  icmpv6/*.rs, icmp_echo_header.rs.

  C-like Rust enums whose discriminant *is* the wire code (`RedirectCode`, `TimeExceededCode`,
  `icmpv6::DestUnreachableCode`, `icmpv6::ParameterProblemCode`, `*self as u8`) are the code number
  with a range in `WF`; `icmpv4::DestUnreachableHeader` (16 variants, only `FragmentationNeeded`
  carries a field) is `destUnreach code mtu` with `mtu = 0` unless `code = 4`, and
  `icmpv4::ParameterProblemHeader` is `paramProblem code ptr` with `ptr = 0` unless `code = 0`.
-/
namespace EpModel.Codec
open EpModel

/-! ## ICMPv4 -/

inductive Icmp4Type where
  | unknown (t c : Nat) (b58 : Bytes)
  | echoReply (id seq : Nat)
  | destUnreach (code mtu : Nat)
  | redirect (code : Nat) (gw : Bytes)
  | echoRequest (id seq : Nat)
  | timeExceeded (code : Nat)
  | paramProblem (code ptr : Nat)
  | tsRequest (id seq o r t : Nat)
  | tsReply (id seq o r t : Nat)
deriving DecidableEq, Repr

structure Icmp4 where
  ty : Icmp4Type
  ck : Nat
deriving DecidableEq, Repr

namespace Icmp4

/-- does (type, code) select a typed variant in `Icmpv4Slice::icmp_type`? -/
def typed (t c : Nat) : Bool :=
  (t == 0 && c == 0) || (t == 3 && c ≤ 15) || (t == 5 && c ≤ 3) || (t == 8 && c == 0) ||
  (t == 11 && c ≤ 1) || (t == 12 && c ≤ 2) || (t == 13 && c == 0) || (t == 14 && c == 0)

def Icmp4Type.WF : Icmp4Type → Prop
  | .unknown t c b58 => t < 256 ∧ c < 256 ∧ b58.length = 4 ∧ typed t c = false
  | .echoReply id seq | .echoRequest id seq => id < 65536 ∧ seq < 65536
  | .destUnreach code mtu => code ≤ 15 ∧ mtu < 65536 ∧ (code ≠ 4 → mtu = 0)
  | .redirect code gw => code ≤ 3 ∧ gw.length = 4
  | .timeExceeded code => code ≤ 1
  | .paramProblem code ptr => code ≤ 2 ∧ ptr < 256 ∧ (code ≠ 0 → ptr = 0)
  | .tsRequest id seq o r t | .tsReply id seq o r t =>
      id < 65536 ∧ seq < 65536 ∧ o < 4294967296 ∧ r < 4294967296 ∧ t < 4294967296

instance (t : Icmp4Type) : Decidable (Icmp4Type.WF t) := by
  cases t <;> unfold Icmp4Type.WF <;> infer_instance

def WF (h : Icmp4) : Prop := Icmp4Type.WF h.ty ∧ h.ck < 65536
instance (h : Icmp4) : Decidable h.WF := by unfold WF; infer_instance

/-- `Icmpv4Type::header_len` -/
def headerLen (h : Icmp4) : Nat :=
  match h.ty with
  | .tsRequest .. | .tsReply .. => 20
  | _ => 8

/-- the three 8 byte closures of `Icmpv4Header::to_bytes` (20 byte array, `set_len(8)`). -/
def reZero (ck t c : Nat) : Bytes := ([u8 t, u8 c] ++ enc16 ck ++ zeros 16).take 8
def re2u16 (ck t c a b : Nat) : Bytes := ([u8 t, u8 c] ++ enc16 ck ++ enc16 a ++ enc16 b ++ zeros 12).take 8
def re4u8 (ck t c : Nat) (b58 : Bytes) : Bytes := ([u8 t, u8 c] ++ enc16 ck ++ b58 ++ zeros 12).take 8
def reTimestamp (ck t id seq o r tr : Nat) : Bytes :=
  [u8 t, 0] ++ enc16 ck ++ enc16 id ++ enc16 seq ++ enc32 o ++ enc32 r ++ enc32 tr

/-- `Icmpv4Header::to_bytes` -/
def toBytes (h : Icmp4) : Bytes :=
  match h.ty with
  | .unknown t c b58 => re4u8 h.ck t c b58
  | .echoReply id seq => re2u16 h.ck 0 0 id seq
  | .destUnreach code mtu =>
      if code = 4 then re4u8 h.ck 3 4 ([0, 0] ++ enc16 mtu) else reZero h.ck 3 code
  | .redirect code gw => re4u8 h.ck 5 code gw
  | .echoRequest id seq => re2u16 h.ck 8 0 id seq
  | .timeExceeded code => reZero h.ck 11 code
  | .paramProblem code ptr =>
      if code = 0 then re4u8 h.ck 12 0 [u8 ptr, 0, 0, 0] else reZero h.ck 12 code
  | .tsRequest id seq o r t => reTimestamp h.ck 13 id seq o r t
  | .tsReply id seq o r t => reTimestamp h.ck 14 id seq o r t

/-- `Icmpv4Header::write`: one `write_all(&self.to_bytes())`. -/
def writeOut (h : Icmp4) : Bytes := toBytes h

/-- `Icmpv4Slice::icmp_type` on a slice of at least 8 (20 for timestamps) bytes. -/
def icmpType (b : Bytes) : Icmp4Type :=
  let t := bAt b 0
  let c := bAt b 1
  let b58 := sub b 4 4
  if t = 0 ∧ c = 0 then .echoReply (be16 b 4) (be16 b 6)
  else if t = 3 ∧ c ≤ 15 then (if c = 4 then .destUnreach 4 (be16 b 6) else .destUnreach c 0)
  else if t = 5 ∧ c ≤ 3 then .redirect c b58
  else if t = 8 ∧ c = 0 then .echoRequest (be16 b 4) (be16 b 6)
  else if t = 11 ∧ c ≤ 1 then .timeExceeded c
  else if t = 12 ∧ c ≤ 2 then (if c = 0 then .paramProblem 0 (bAt b 4) else .paramProblem c 0)
  else if t = 13 ∧ c = 0 then .tsRequest (be16 b 4) (be16 b 6) (be32 b 8) (be32 b 12) (be32 b 16)
  else if t = 14 ∧ c = 0 then .tsReply (be16 b 4) (be16 b 6) (be32 b 8) (be32 b 12) (be32 b 16)
  else .unknown t c b58

/-- `Icmpv4Header::from_slice`: `Icmpv4Slice::from_slice(slice)?.header()`, rest =
    `slice[header.header_len()..]`.  Timestamp messages are accepted only when the slice is
    *exactly* 20 bytes long. -/
def fromSlice (b : Bytes) : Except Err (Icmp4 × Bytes) :=
  if b.length < 8 then .error (lenErrSlice 8 b.length "Icmpv4")
  else if bAt b 0 = 13 ∧ bAt b 1 = 0 ∧ b.length ≠ 20 then
    .error (lenErrSlice 20 b.length "Icmpv4Timestamp")
  else if bAt b 0 = 14 ∧ bAt b 1 = 0 ∧ b.length ≠ 20 then
    .error (lenErrSlice 20 b.length "Icmpv4TimestampReply")
  else
    let h : Icmp4 := { ty := icmpType b, ck := be16 b 2 }
    .ok (h, b.drop (headerLen h))

def sampleMax : Icmp4 := { ty := .tsReply 65535 65535 4294967295 4294967295 4294967295, ck := 65535 }
def sampleUnknown : Icmp4 := { ty := .unknown 255 255 [255, 255, 255, 255], ck := 65535 }
def sampleFrag : Icmp4 := { ty := .destUnreach 4 65535, ck := 0 }

end Icmp4

/-! ## ICMPv6 -/

inductive Icmp6Type where
  | unknown (t c : Nat) (b58 : Bytes)
  | destUnreach (code : Nat)
  | packetTooBig (mtu : Nat)
  | timeExceeded (code : Nat)
  | paramProblem (code ptr : Nat)
  | echoRequest (id seq : Nat)
  | echoReply (id seq : Nat)
  | routerSolicitation
  | routerAdvertisement (curHopLimit : Nat) (managed other : Bool) (lifetime : Nat)
  | neighborSolicitation
  | neighborAdvertisement (router solicited override : Bool)
  | redirect
deriving DecidableEq, Repr

structure Icmp6 where
  ty : Icmp6Type
  ck : Nat
deriving DecidableEq, Repr

namespace Icmp6

/-- does (type, code) select a typed variant in `Icmpv6Slice::icmp_type`? -/
def typed (t c : Nat) : Bool :=
  (t == 1 && c ≤ 6) || (t == 2 && c == 0) || (t == 3 && c ≤ 1) || (t == 4 && c ≤ 10) ||
  (t == 128 && c == 0) || (t == 129 && c == 0) || (t == 133 && c == 0) || (t == 134 && c == 0) ||
  (t == 135 && c == 0) || (t == 136 && c == 0) || (t == 137 && c == 0)

def Icmp6Type.WF : Icmp6Type → Prop
  | .unknown t c b58 => t < 256 ∧ c < 256 ∧ b58.length = 4 ∧ typed t c = false
  | .destUnreach code => code ≤ 6
  | .packetTooBig mtu => mtu < 4294967296
  | .timeExceeded code => code ≤ 1
  | .paramProblem code ptr => code ≤ 10 ∧ ptr < 4294967296
  | .echoRequest id seq | .echoReply id seq => id < 65536 ∧ seq < 65536
  | .routerAdvertisement chl _ _ lt => chl < 256 ∧ lt < 65536
  | .routerSolicitation | .neighborSolicitation | .neighborAdvertisement .. | .redirect => True

instance (t : Icmp6Type) : Decidable (Icmp6Type.WF t) := by
  cases t <;> unfold Icmp6Type.WF <;> infer_instance

def WF (h : Icmp6) : Prop := Icmp6Type.WF h.ty ∧ h.ck < 65536
instance (h : Icmp6) : Decidable h.WF := by unfold WF; infer_instance

/-- `Icmpv6Type::header_len`: 8 for every variant. -/
def headerLen (_ : Icmp6) : Nat := 8

/-- the two closures of `Icmpv6Header::to_bytes` (40 byte array, `set_len(8)`). -/
def returnTrivial (ck t c : Nat) : Bytes := ([u8 t, u8 c] ++ enc16 ck ++ zeros 36).take 8
def return4u8 (ck t c : Nat) (b58 : Bytes) : Bytes := ([u8 t, u8 c] ++ enc16 ck ++ b58 ++ zeros 32).take 8

/-- `RouterAdvertisementHeader::to_bytes` -/
def raBytes (chl : Nat) (m o : Bool) (lt : Nat) : Bytes :=
  [u8 chl, u8 ((if m then 0b1000_0000 else 0) ||| (if o then 0b0100_0000 else 0))] ++ enc16 lt

/-- `NeighborAdvertisementHeader::to_bytes` -/
def naBytes (r s o : Bool) : Bytes :=
  let v := 0
  let v := if r then v ||| 0b10000000 else v
  let v := if s then v ||| 0b01000000 else v
  let v := if o then v ||| 0b00100000 else v
  [u8 v, 0, 0, 0]

/-- `Icmpv6Header::to_bytes` -/
def toBytes (h : Icmp6) : Bytes :=
  match h.ty with
  | .unknown t c b58 => return4u8 h.ck t c b58
  | .destUnreach code => returnTrivial h.ck 1 code
  | .packetTooBig mtu => return4u8 h.ck 2 0 (enc32 mtu)
  | .timeExceeded code => returnTrivial h.ck 3 code
  | .paramProblem code ptr => return4u8 h.ck 4 code (enc32 ptr)
  | .echoRequest id seq => return4u8 h.ck 128 0 (enc16 id ++ enc16 seq)
  | .echoReply id seq => return4u8 h.ck 129 0 (enc16 id ++ enc16 seq)
  | .routerSolicitation => returnTrivial h.ck 133 0
  | .routerAdvertisement chl m o lt => return4u8 h.ck 134 0 (raBytes chl m o lt)
  | .neighborSolicitation => returnTrivial h.ck 135 0
  | .neighborAdvertisement r s o => return4u8 h.ck 136 0 (naBytes r s o)
  | .redirect => returnTrivial h.ck 137 0

/-- `Icmpv6Header::write`: one `write_all(&self.to_bytes())`. -/
def writeOut (h : Icmp6) : Bytes := toBytes h

/-- `Icmpv6Slice::icmp_type` -/
def icmpType (b : Bytes) : Icmp6Type :=
  let t := bAt b 0
  let c := bAt b 1
  if t = 1 ∧ c ≤ 6 then .destUnreach c
  else if t = 2 ∧ c = 0 then .packetTooBig (be32 b 4)
  else if t = 3 ∧ c ≤ 1 then .timeExceeded c
  else if t = 4 ∧ c ≤ 10 then .paramProblem c (be32 b 4)
  else if t = 128 ∧ c = 0 then .echoRequest (be16 b 4) (be16 b 6)
  else if t = 129 ∧ c = 0 then .echoReply (be16 b 4) (be16 b 6)
  else if t = 133 ∧ c = 0 then .routerSolicitation
  else if t = 134 ∧ c = 0 then
    .routerAdvertisement (bAt b 4) ((bAt b 5 &&& 0b1000_0000) ≠ 0) ((bAt b 5 &&& 0b0100_0000) ≠ 0) (be16 b 6)
  else if t = 135 ∧ c = 0 then .neighborSolicitation
  else if t = 136 ∧ c = 0 then
    .neighborAdvertisement ((bAt b 4 &&& 0b10000000) = 0b10000000) ((bAt b 4 &&& 0b01000000) = 0b01000000)
      ((bAt b 4 &&& 0b00100000) = 0b00100000)
  else if t = 137 ∧ c = 0 then .redirect
  else .unknown t c (sub b 4 4)

/-- `Icmpv6Header::from_slice`; slices longer than `u32::MAX` are rejected. -/
def fromSlice (b : Bytes) : Except Err (Icmp6 × Bytes) :=
  if b.length < 8 then .error (lenErrSlice 8 b.length "Icmpv6")
  else if b.length > 4294967295 then .error (lenErrSlice 4294967295 b.length "Icmpv6")
  else .ok ({ ty := icmpType b, ck := be16 b 2 }, b.drop 8)

def sampleMax : Icmp6 := { ty := .paramProblem 10 4294967295, ck := 65535 }
def sampleRa : Icmp6 := { ty := .routerAdvertisement 255 true true 65535, ck := 65535 }
def sampleUnknown : Icmp6 := { ty := .unknown 255 255 [255, 255, 255, 255], ck := 1 }

end Icmp6

end EpModel.Codec
