import EpModel.Model.Codec.NetCommon
/-
  Model of etherparse/src/net/ipv6_fragment_header.rs (to_bytes, write, from_slice, header_len,
  is_fragmenting_payload) and ipv6_fragment_header_slice.rs (from_slice, accessors, to_header).
-/
namespace EpModel.CodecNet
open EpModel

structure Ipv6FragmentHeader where
  nextHeader : Nat
  fragmentOffset : Nat
  moreFragments : Bool
  identification : Nat
  deriving DecidableEq, Repr

namespace Ipv6FragmentHeader

/-- IpNumber(u8), IpFragOffset (13 bit), bool, u32 -/
def WF (h : Ipv6FragmentHeader) : Prop :=
  h.nextHeader < 256 ∧ h.fragmentOffset < 8192 ∧ h.identification < 4294967296

instance : DecidablePred WF := fun h => by unfold WF; infer_instance

def headerLen (_h : Ipv6FragmentHeader) : Nat := 8

/-- `((fragment_offset.value() << 3) | if more_fragments {1} else {0}).to_be_bytes()` (u16) -/
def foWord (h : Ipv6FragmentHeader) : Nat :=
  shl16 h.fragmentOffset 3 ||| (if h.moreFragments then 1 else 0)

/-- `Ipv6FragmentHeader::to_bytes` -/
def toBytes (h : Ipv6FragmentHeader) : Bytes :=
  [ u8 h.nextHeader, 0, u8 (foWord h / 256), u8 (foWord h),
    u8 (h.identification / 16777216), u8 (h.identification / 65536),
    u8 (h.identification / 256), u8 h.identification ]

/-- `write`: `writer.write_all(&self.to_bytes())` -/
def writeOut (h : Ipv6FragmentHeader) : Bytes := toBytes h

def isFragmentingPayload (h : Ipv6FragmentHeader) : Bool :=
  h.moreFragments || decide (0 ≠ h.fragmentOffset)

end Ipv6FragmentHeader

structure Ipv6FragmentHeaderSlice where
  slice : Bytes
  deriving DecidableEq, Repr

namespace Ipv6FragmentHeaderSlice

/-- `Ipv6FragmentHeaderSlice::from_slice` -/
def fromSlice (b : Bytes) : Except LenError Ipv6FragmentHeaderSlice :=
  if b.length < 8 then .error (sliceLenErr 8 b.length .ipv6FragHeader)
  else .ok { slice := b.take 8 }

def nextHeader (s : Ipv6FragmentHeaderSlice) : Nat := bAt s.slice 0
/-- `u16::from_be_bytes([s[2], s[3]]) >> 3` -/
def fragmentOffset (s : Ipv6FragmentHeaderSlice) : Nat := be16 s.slice 2 >>> 3
/-- `0 != s[3] & 1` -/
def moreFragments (s : Ipv6FragmentHeaderSlice) : Bool := decide (0 ≠ bAt s.slice 3 &&& 1)
def identification (s : Ipv6FragmentHeaderSlice) : Nat := be32 s.slice 4
def isFragmentingPayload (s : Ipv6FragmentHeaderSlice) : Bool :=
  s.moreFragments || decide (0 ≠ s.fragmentOffset)

def toHeader (s : Ipv6FragmentHeaderSlice) : Ipv6FragmentHeader :=
  { nextHeader := s.nextHeader, fragmentOffset := s.fragmentOffset,
    moreFragments := s.moreFragments, identification := s.identification }

end Ipv6FragmentHeaderSlice

/-- `Ipv6FragmentHeader::from_slice` -/
def Ipv6FragmentHeader.fromSlice (b : Bytes) : Except LenError (Ipv6FragmentHeader × Bytes) :=
  match Ipv6FragmentHeaderSlice.fromSlice b with
  | .error e => .error e
  | .ok s => .ok (s.toHeader, b.drop 8)

def Ipv6FragmentHeader.sampleMax : Ipv6FragmentHeader :=
  { nextHeader := 255, fragmentOffset := 8191, moreFragments := true, identification := 4294967295 }

end EpModel.CodecNet
