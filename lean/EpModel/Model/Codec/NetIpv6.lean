import EpModel.Model.Codec.NetCommon
/-
  Model of etherparse/src/net/ipv6_header.rs (to_bytes, write, from_slice, header_len) and
  ipv6_header_slice.rs (from_slice, every accessor, to_header).
-/
namespace EpModel.CodecNet
open EpModel

structure Ipv6Header where
  trafficClass : Nat
  flowLabel : Nat
  payloadLength : Nat
  nextHeader : Nat
  hopLimit : Nat
  source : Bytes
  destination : Bytes
  deriving DecidableEq, Repr

inductive Ipv6Err where
  | len (e : LenError)
  | unexpectedVersion (v : Nat)
  deriving DecidableEq, Repr

namespace Ipv6Header

/-- field ranges of the Rust type: u8, Ipv6FlowLabel (20 bit), u16, IpNumber(u8), u8, [u8;16] ×2 -/
def WF (h : Ipv6Header) : Prop :=
  h.trafficClass < 256 ∧ h.flowLabel < 1048576 ∧ h.payloadLength < 65536 ∧ h.nextHeader < 256 ∧
  h.hopLimit < 256 ∧ h.source.length = 16 ∧ h.destination.length = 16

instance : DecidablePred WF := fun h => by unfold WF; infer_instance

/-- `Ipv6Header::LEN` / `header_len()` -/
def headerLen (_h : Ipv6Header) : Nat := 40

/-- `Ipv6Header::to_bytes` -/
def toBytes (h : Ipv6Header) : Bytes :=
  -- flow_label_be = flow_label.value().to_be_bytes(); payload_len_be = payload_length.to_be_bytes()
  [ u8 ((6 <<< 4) ||| (h.trafficClass >>> 4)),
    u8 (shl8 h.trafficClass 4 ||| (h.flowLabel / 65536 % 256)),
    u8 (h.flowLabel / 256),
    u8 h.flowLabel,
    u8 (h.payloadLength / 256),
    u8 h.payloadLength,
    u8 h.nextHeader,
    u8 h.hopLimit ] ++ h.source ++ h.destination

/-- `Ipv6Header::write` into a `Vec`: `writer.write_all(&self.to_bytes())` -/
def writeOut (h : Ipv6Header) : Bytes := toBytes h

end Ipv6Header

/-- `Ipv6HeaderSlice`: the first 40 bytes of the input. -/
structure Ipv6HeaderSlice where
  slice : Bytes
  deriving DecidableEq, Repr

namespace Ipv6HeaderSlice

/-- `Ipv6HeaderSlice::from_slice` -/
def fromSlice (b : Bytes) : Except Ipv6Err Ipv6HeaderSlice :=
  if b.length < 40 then .error (.len (sliceLenErr 40 b.length .ipv6Header))
  else
    let version := bAt b 0 >>> 4
    if 6 ≠ version then .error (.unexpectedVersion version)
    else .ok { slice := b.take 40 }

def version (s : Ipv6HeaderSlice) : Nat := bAt s.slice 0 >>> 4
def trafficClass (s : Ipv6HeaderSlice) : Nat := shl8 (bAt s.slice 0) 4 ||| (bAt s.slice 1 >>> 4)
def ecn (s : Ipv6HeaderSlice) : Nat := s.trafficClass &&& 3
def dscp (s : Ipv6HeaderSlice) : Nat := (s.trafficClass >>> 2) &&& 63
/-- `u32::from_be_bytes([0, s[1] & 0xf, s[2], s[3]])` -/
def flowLabel (s : Ipv6HeaderSlice) : Nat :=
  (bAt s.slice 1 &&& 0xf) * 65536 + bAt s.slice 2 * 256 + bAt s.slice 3
def payloadLength (s : Ipv6HeaderSlice) : Nat := be16 s.slice 4
def nextHeader (s : Ipv6HeaderSlice) : Nat := bAt s.slice 6
def hopLimit (s : Ipv6HeaderSlice) : Nat := bAt s.slice 7
def source (s : Ipv6HeaderSlice) : Bytes := sub s.slice 8 16
def destination (s : Ipv6HeaderSlice) : Bytes := sub s.slice 24 16
def headerLen (_s : Ipv6HeaderSlice) : Nat := 40

/-- `Ipv6HeaderSlice::to_header` -/
def toHeader (s : Ipv6HeaderSlice) : Ipv6Header :=
  { trafficClass := s.trafficClass, flowLabel := s.flowLabel, payloadLength := s.payloadLength,
    nextHeader := s.nextHeader, hopLimit := s.hopLimit, source := s.source,
    destination := s.destination }

end Ipv6HeaderSlice

/-- `Ipv6Header::from_slice`: `(Ipv6HeaderSlice::from_slice(slice)?.to_header(), &slice[40..])` -/
def Ipv6Header.fromSlice (b : Bytes) : Except Ipv6Err (Ipv6Header × Bytes) :=
  match Ipv6HeaderSlice.fromSlice b with
  | .error e => .error e
  | .ok s => .ok (s.toHeader, b.drop 40)

/-- extreme value for the non-vacuity example. -/
def Ipv6Header.sampleMax : Ipv6Header :=
  { trafficClass := 255, flowLabel := 1048575, payloadLength := 65535, nextHeader := 255,
    hopLimit := 255, source := List.replicate 16 255, destination := List.replicate 16 254 }

end EpModel.CodecNet
