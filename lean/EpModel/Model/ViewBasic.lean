import EpModel.Model.Basic
/-
  Types shared by the control-message view models (ICMPv4/ICMPv6/NDP/IGMP/ARP):
  the crate's `err::LenError`, windows into the input, a three-way result (ok / Rust `Err` / panic).
-/
namespace EpModel.View
open EpModel

/-- `LenSource` values that occur in the views. -/
inductive LenSource | slice | arpAddrLengths
  deriving DecidableEq, Repr

/-- `err::Layer` values that occur in the views. -/
inductive Layer | icmpv4 | icmpv4Timestamp | icmpv4TimestampReply | icmpv6 | igmp | arp
  deriving DecidableEq, Repr

/-- `err::LenError`, field by field. -/
structure LenError where
  req : Nat
  len : Nat
  src : LenSource
  layer : Layer
  off : Nat
  deriving DecidableEq, Repr

/-- a sub-slice of the input: offset of its first byte in the input and its length. -/
structure Win where
  off : Nat
  len : Nat
  deriving DecidableEq, Repr

/-- result of a Rust function that returns `Result<_, E>` and contains a panicking operation
    (`&slice[n..]`, `unwrap`): the panic is a value of its own, not totalised away. -/
inductive Res (ε α : Type) | ok (a : α) | err (e : ε) | panic
  deriving DecidableEq, Repr

/-- `[slice[4], slice[5], slice[6], slice[7]]` (the accessor `bytes5to8`). -/
def bytes5to8 (b : Bytes) : Bytes := [b.getD 4 0, b.getD 5 0, b.getD 6 0, b.getD 7 0]

/-- `0 != byte & mask` for a single-bit mask `mask = 2^k`, on the numeric value of the byte. -/
def bitSet (v mask : Nat) : Bool := decide (v / mask % 2 = 1)

end EpModel.View
