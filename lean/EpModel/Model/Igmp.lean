import EpModel.Model.ViewBasic
/-
  Model of the IGMP views, following the Rust code:
    transport/igmp_header.rs                          IgmpHeader::{from_slice, header_len}
    transport/igmp/report_group_record_v3_header.rs   ReportGroupRecordV3Header::from_slice
    transport/igmp/membership_query_with_sources_header.rs   flags / s_flag / qrv accessors
    transport/igmp/max_response_code.rs               MaxResponseCode::as_10th_secs
-/
namespace EpModel.View
open EpModel

/-- `IgmpType` with the fields of the per-variant structs. -/
inductive IgmpType
  | membershipQuery (maxResponseTime : Nat) (groupAddress : Bytes)
  | membershipQueryWithSources (maxResponseCode : Nat) (groupAddress : Bytes) (rawByte8 qqic : Nat)
      (numOfSources : Nat)
  | membershipReportV1 (groupAddress : Bytes)
  | membershipReportV2 (groupAddress : Bytes)
  | membershipReportV3 (flags : Bytes) (numOfRecords : Nat)
  | leaveGroup (groupAddress : Bytes)
  | unknown (igmpType rawByte1 : Nat) (rawBytes47 : Bytes)
  deriving DecidableEq, Repr

structure IgmpHeaderRest where
  igmpType : IgmpType
  checksum : Nat
  rest : Win
  deriving DecidableEq, Repr

/-- `IgmpHeader::from_slice`: at least 8 bytes; a membership query (0x11) of exactly 8 bytes is the
    v1/v2 form, of at least 12 bytes the v3 form, 9–11 bytes are an error; every other type has an
    8 byte header, unassigned types yield `Unknown`. -/
def igmpFromSlice (b : Bytes) : Except LenError IgmpHeaderRest :=
  if b.length < 8 then
    .error { req := 8, len := b.length, src := .slice, layer := .igmp, off := 0 }
  else
    let typeU8 := bAt b 0
    let maxResp := bAt b 1
    let checksum := be16 b 2
    let group := bytes5to8 b
    let rest8 : Win := { off := 8, len := b.length - 8 }
    if typeU8 = 0x11 then
      if 8 = b.length then
        .ok { igmpType := .membershipQuery maxResp group, checksum := checksum, rest := rest8 }
      else if b.length ≥ 12 then
        .ok { igmpType := .membershipQueryWithSources maxResp group (bAt b 8) (bAt b 9) (be16 b 10),
              checksum := checksum, rest := { off := 12, len := b.length - 12 } }
      else
        .error { req := 12, len := b.length, src := .slice, layer := .igmp, off := 0 }
    else if typeU8 = 0x12 then
      .ok { igmpType := .membershipReportV1 group, checksum := checksum, rest := rest8 }
    else if typeU8 = 0x16 then
      .ok { igmpType := .membershipReportV2 group, checksum := checksum, rest := rest8 }
    else if typeU8 = 0x17 then
      .ok { igmpType := .leaveGroup group, checksum := checksum, rest := rest8 }
    else if typeU8 = 0x22 then
      .ok { igmpType := .membershipReportV3 [b.getD 4 0, b.getD 5 0] (be16 b 6),
            checksum := checksum, rest := rest8 }
    else
      .ok { igmpType := .unknown typeU8 maxResp group, checksum := checksum, rest := rest8 }

/-- `IgmpHeader::header_len` -/
def IgmpType.headerLen : IgmpType → Nat
  | .membershipQueryWithSources _ _ _ _ _ => 12
  | _ => 8

/-- `MembershipQueryWithSourcesHeader::flags`: `(raw_byte_8 & 0xf0) >> 4` -/
def queryFlags (rawByte8 : Nat) : Nat := rawByte8 / 16 % 16
/-- `MembershipQueryWithSourcesHeader::s_flag`: `0 != raw_byte_8 & 0b1000` -/
def querySFlag (rawByte8 : Nat) : Bool := bitSet rawByte8 8
/-- `MembershipQueryWithSourcesHeader::qrv`: `raw_byte_8 & 0b111` -/
def queryQrv (rawByte8 : Nat) : Nat := rawByte8 % 8

/-- `MaxResponseCode::as_10th_secs`: floating point form when the top bit is set:
    `u16::from((v & 0x0f) | 0x10) << u16::from(((v & 0x70) >> 4) + 3)` (the `u16` shift keeps the
    low 16 bits; the largest value is `0x1f << 10 = 31744`, so nothing is lost, the `% 65536` is
    written to mirror the type). -/
def maxRespAs10thSecs (v : Nat) : Nat :=
  if v / 128 % 2 = 1 then ((v % 16 + 16) * 2 ^ (v / 16 % 8 + 3)) % 65536 else v

/-- `ReportGroupRecordV3Header` -/
structure GroupRecordHeader where
  recordType : Nat
  auxDataLen : Nat
  numOfSources : Nat
  multicastAddress : Bytes
  rest : Win
  deriving DecidableEq, Repr

/-- `ReportGroupRecordV3Header::from_slice` -/
def groupRecordFromSlice (b : Bytes) : Except LenError GroupRecordHeader :=
  if b.length < 8 then
    .error { req := 8, len := b.length, src := .slice, layer := .igmp, off := 0 }
  else
    .ok { recordType := bAt b 0, auxDataLen := bAt b 1, numOfSources := be16 b 2,
          multicastAddress := bytes5to8 b, rest := { off := 8, len := b.length - 8 } }

end EpModel.View
