import EpModel.Model.Checksum
import EpModel.Model.ChecksumFast
import EpModel.Spec.Rfc1071
/-
  Checksums of the protocols, from the wire bytes: what the RFCs prescribe, written with
  `Spec.checksum` (RFC 1071) over pseudo header ++ header with a zeroed checksum field ++ payload.
  These are the *expected* values of the `ck.w.*` operations, in which the harness drives every route
  the crate offers to that checksum (header struct, header slice, slice, `with_*_checksum`,
  `update_checksum*`, `TransportHeader::update_checksum_*`).
  `s16Method` is the model of one `Sum16BitWords` method call on the 64 bit target.
-/
namespace EpModel.Checksum
open EpModel

/-- one `Sum16BitWords` call: `add_2bytes` / `add_4bytes` / `add_8bytes` / `add_16bytes` for
    arguments of those sizes, `add_slice` otherwise -/
def s16Method (s : Nat) (v : Bytes) : Nat :=
  if v.length = 2 then add2_64 s v
  else if v.length = 4 then add4_64 s v
  else if v.length = 8 then add8_64 s v
  else if v.length = 16 then add8_64 (add8_64 s (v.take 8)) (v.drop 8)
  else addSlice64 s v

/-- `b` with the `n` bytes at `i` replaced by zeros -/
def zeroAt (b : Bytes) (i n : Nat) : Bytes := b.take i ++ List.replicate n 0 ++ b.drop (i + n)

/-- RFC 768 / RFC 9293 pseudo header over IPv4 -/
def pseudo4 (src dst : Bytes) (proto len : Nat) : Bytes := src ++ dst ++ [0, u8 proto] ++ enc16 len
/-- RFC 8200 8.1 pseudo header -/
def pseudo6 (src dst : Bytes) (proto len : Nat) : Bytes := src ++ dst ++ enc32 len ++ [0, 0, 0, u8 proto]

def noZeroW (v : Nat) : Nat := if v = 0 then 65535 else v

/-- RFC 791: header checksum over the header with a zeroed checksum field -/
def wireIpv4 (h : Bytes) : Nat := Spec.checksum (zeroAt h 10 2)
/-- RFC 768 (a computed 0 is transmitted as 0xffff) -/
def wireUdp4 (src dst h pl : Bytes) : Nat :=
  noZeroW (Spec.checksum (pseudo4 src dst 17 (h.length + pl.length) ++ zeroAt h 6 2 ++ pl))
def wireUdp6 (src dst h pl : Bytes) : Nat :=
  noZeroW (Spec.checksum (pseudo6 src dst 17 (h.length + pl.length) ++ zeroAt h 6 2 ++ pl))
/-- RFC 9293 3.1 -/
def wireTcp4 (src dst h pl : Bytes) : Nat :=
  Spec.checksum (pseudo4 src dst 6 (h.length + pl.length) ++ zeroAt h 16 2 ++ pl)
def wireTcp6 (src dst h pl : Bytes) : Nat :=
  Spec.checksum (pseudo6 src dst 6 (h.length + pl.length) ++ zeroAt h 16 2 ++ pl)
/-- RFC 792: over the ICMP message, no pseudo header -/
def wireIcmp4 (m : Bytes) : Nat := Spec.checksum (zeroAt m 2 2)
/-- RFC 4443 2.3: with the IPv6 pseudo header -/
def wireIcmp6 (src dst m : Bytes) : Nat := Spec.checksum (pseudo6 src dst 58 m.length ++ zeroAt m 2 2)
/-- RFC 1071: a message verifies iff the sum over everything incl. the checksum field is all ones -/
def validIcmp6 (src dst m : Bytes) : Bool := Spec.checksum (pseudo6 src dst 58 m.length ++ m) = 0
/-- RFC 2236 / 9776: over the whole IGMP message -/
def wireIgmp (m : Bytes) : Nat := Spec.checksum (zeroAt m 2 2)

end EpModel.Checksum
