import EpModel.Model.Dec.Link
import EpModel.Model.Dec.Ip
import EpModel.Model.Dec.Tp
/-
  The two slicing cursors: SlicedPacketCursor (sliced_packet_cursor.rs) and
  LaxSlicedPacketCursor (lax_sliced_packet_cursor.rs), and the entry points of
  SlicedPacket / LaxSlicedPacket.
-/
namespace EpModel.Dec
open EpModel

/-- cursor state: `offset`, `len_source`, the result so far. -/
structure Cur where
  off : Nat
  src : LenSource
  r : Packet
deriving Repr, Inhabited

def Cur.new : Cur := { off := 0, src := .slice, r := Packet.empty }

def Packet.setLink (p : Packet) (x : LinkR) : Packet :=
  { link := some x, exts := p.exts, net := p.net, tp := p.tp, stop := p.stop }
def Packet.pushExt (p : Packet) (x : ExtR) : Packet :=
  { link := p.link, exts := p.exts ++ [x], net := p.net, tp := p.tp, stop := p.stop }
def Packet.setNet (p : Packet) (x : NetR) : Packet :=
  { link := p.link, exts := p.exts, net := some x, tp := p.tp, stop := p.stop }
def Packet.setTp (p : Packet) (x : TpR) : Packet :=
  { link := p.link, exts := p.exts, net := p.net, tp := some x, stop := p.stop }
def Packet.setStop (p : Packet) (e : PErr) (ly : Layer) : Packet :=
  { link := p.link, exts := p.exts, net := p.net, tp := p.tp, stop := some (e, ly) }

/-! ### strict cursor -/

/-- slice_udp / slice_tcp / slice_icmp4 / slice_icmp6: length errors get `+ offset` and the cursor's
    len_source if they name the slice. -/
def Cur.sliceTransport (c : Cur) (g : Mem) (num : Nat) (o l : Nat) : Except PErr Packet :=
  let fix (e : LenError) : PErr := .len ((e.addOffset c.off).srcIfSlice c.src)
  if num = 1 then
    match icmp4FromSlice g o l with
    | .error e => .error (fix e)
    | .ok w => .ok (c.r.setTp (.icmp4 w))
  else if num = 17 then
    match udpFromSlice g o l with
    | .error e => .error (fix e)
    | .ok w => .ok (c.r.setTp (.udp w))
  else if num = 6 then
    match tcpFromSlice g o l with
    | .error (.len e) => .error (fix e)
    | .error e => .error e
    | .ok hl => .ok (c.r.setTp (.tcp ⟨o, l⟩ hl))
  else if num = 58 then
    match icmp6FromSlice o l with
    | .error e => .error (fix e)
    | .ok w => .ok (c.r.setTp (.icmp6 w))
  else .ok c.r

/-- what slice_ip / slice_ipv4 / slice_ipv6 do with a decoded IP layer (`o` = start of the IP slice) -/
def Cur.afterIp (c : Cur) (g : Mem) (o : Nat) (ip : IpR) : Except PErr Packet :=
  let c' : Cur := { off := c.off + (ip.pl.w.o - o), src := ip.pl.src, r := c.r.setNet (.ip ip) }
  if ip.pl.frag then .ok c'.r else c'.sliceTransport g ip.pl.num ip.pl.w.o ip.pl.w.l

def lenAddOff (k : Nat) : PErr → PErr
  | .len e => .len (e.addOffset k)
  | e => e

def Cur.sliceIp (c : Cur) (g : Mem) (o l : Nat) : Except PErr Packet :=
  match ipSliceFromSlice g o l with
  | .error e => .error (lenAddOff c.off e)
  | .ok ip => c.afterIp g o ip

def Cur.sliceIpv4 (c : Cur) (g : Mem) (o l : Nat) : Except PErr Packet :=
  match ipv4SliceFromSlice g o l with
  | .error e => .error (lenAddOff c.off e)
  | .ok ip => c.afterIp g o ip

def Cur.sliceIpv6 (c : Cur) (g : Mem) (o l : Nat) : Except PErr Packet :=
  match ipv6SliceFromSlice g o l with
  | .error e => .error (lenAddOff c.off e)
  | .ok ip => c.afterIp g o ip

def Cur.sliceArp (c : Cur) (g : Mem) (o l : Nat) : Except PErr Packet :=
  match arpFromSlice g o l with
  | .error e => .error (.len (e.addOffset c.off))
  | .ok w => .ok (c.r.setNet (.arp w))

/-- the loop of `slice_ether_type`; `n` = number of link extensions that still fit (3 − len). -/
def Cur.sliceEtherType (c : Cur) (g : Mem) (n : Nat) (et : Nat) (o l : Nat) : Except PErr Packet :=
  if et = 0x8100 ∨ et = 0x88a8 ∨ et = 0x9100 then
    match n with
    | 0 => .ok c.r
    | n + 1 =>
      match vlanFromSlice o l with
      | .error e => .error (.len (e.addOffset c.off))
      | .ok w =>
        Cur.sliceEtherType { off := c.off + 4, src := c.src, r := c.r.pushExt (.vlan w) } g n
          (g16 g (o + 2)) (o + 4) (l - 4)
  else if et = 0x88e5 then
    match n with
    | 0 => .ok c.r
    | n + 1 =>
      match macsecFromSlice g o l with
      | .error (.len e) => .error (.len (e.addOffset c.off))
      | .error e => .error e
      | .ok (.macsec hdr pl src inc) =>
        let c' : Cur :=
          { off := c.off + hdr.l,
            src := if 0 < (g (o + 1)) % 64 then .macsecShortLength else c.src,
            r := c.r.pushExt (.macsec hdr pl src inc) }
        match macsecNextEtherType g o with
        | some et' => Cur.sliceEtherType c' g n et' pl.o pl.l
        | none => .ok c'.r
      | .ok _ => .ok c.r   -- unreachable: macsecFromSlice only returns `.macsec`
  else if et = 0x0806 then c.sliceArp g o l
  else if et = 0x0800 then c.sliceIpv4 g o l
  else if et = 0x86dd then c.sliceIpv6 g o l
  else .ok c.r

/-- SlicedPacket::from_ethernet -/
def slicedFromEthernet (g : Mem) (n : Nat) : Except PErr Packet :=
  match eth2FromSlice 0 n with
  | .error e => .error (.len (e.addOffset 0))
  | .ok w =>
    Cur.sliceEtherType { off := 14, src := .slice, r := Packet.empty.setLink (.eth2 w) } g 3
      (g16 g 12) 14 (n - 14)

/-- SlicedPacket::from_linux_sll -/
def slicedFromLinuxSll (g : Mem) (n : Nat) : Except PErr Packet :=
  match sllFromSlice g 0 n with
  | .error e => .error (lenAddOff 0 e)
  | .ok w =>
    let c : Cur := { off := 16, src := .slice, r := Packet.empty.setLink (.sll w) }
    match sllProtoOf (g16 g 2) (g16 g 14) with
    | .ok (.etherType et) => c.sliceEtherType g 3 et 16 (n - 16)
    | _ => .ok c.r

/-- SlicedPacket::from_ether_type -/
def slicedFromEtherType (g : Mem) (et : Nat) (n : Nat) : Except PErr Packet :=
  Cur.sliceEtherType { off := 0, src := .slice, r := Packet.empty.setLink (.etherPayload et ⟨0, n⟩) }
    g 3 et 0 n

/-- SlicedPacket::from_ip -/
def slicedFromIp (g : Mem) (n : Nat) : Except PErr Packet :=
  Cur.new.sliceIp g 0 n

/-! ### lax cursor -/

/-- LaxSlicedPacketCursor::slice_transport; `psrc` = len_source of the IP payload -/
def Cur.laxSliceTransport (c : Cur) (g : Mem) (pl : IpPl) : Packet :=
  if pl.frag ∨ c.r.stop.isSome then c.r
  else
    let o := pl.w.o
    let l := pl.w.l
    let fix (e : LenError) : PErr := .len ((e.addOffset c.off).srcIfSlice pl.src)
    if pl.num = 1 then
      match icmp4FromSlice g o l with
      | .ok w => c.r.setTp (.icmp4 w)
      | .error e => c.r.setStop (fix e) .icmpv4
    else if pl.num = 17 then
      match udpFromSliceLax g o l with
      | .ok w => c.r.setTp (.udp w)
      | .error e => c.r.setStop (fix e) .udpHeader
    else if pl.num = 6 then
      match tcpFromSlice g o l with
      | .ok hl => c.r.setTp (.tcp ⟨o, l⟩ hl)
      | .error (.len e) => c.r.setStop (fix e) .tcpHeader
      | .error e => c.r.setStop e .tcpHeader
    else if pl.num = 58 then
      match icmp6FromSlice o l with
      | .ok w => c.r.setTp (.icmp6 w)
      | .error e => c.r.setStop (fix e) .icmpv6
    else c.r

/-- LaxSlicedPacketCursor::slice_ip -/
def Cur.laxSliceIp (c : Cur) (g : Mem) (o l : Nat) : Packet :=
  match laxIpSliceFromSlice g o l with
  | .error (.len e) => c.r.setStop (.len ((e.addOffset c.off).srcIfSlice c.src)) .ipHeader
  | .error e => c.r.setStop e .ipHeader
  | .ok (ip, stop) =>
    let r1 := c.r.setNet (.ip ip)
    let r2 : Packet :=
      match stop with
      | none => r1
      | some (.len e, ly) => r1.setStop (.len ((e.addOffset c.off).srcIfSlice c.src)) ly
      | some (e, ly) => r1.setStop e ly
    let c' : Cur :=
      { off := c.off + (ip.pl.w.o - o),
        src := if ip.pl.src ≠ .slice then ip.pl.src else c.src, r := r2 }
    c'.laxSliceTransport g ip.pl

def Cur.laxSliceArp (c : Cur) (g : Mem) (o l : Nat) : Packet :=
  match arpFromSlice g o l with
  | .error e => c.r.setStop (.len ((e.addOffset c.off).srcIfSlice c.src)) .arp
  | .ok w => c.r.setNet (.arp w)

/-- LaxSlicedPacketCursor::slice_ether_type -/
def Cur.laxSliceEtherType (c : Cur) (g : Mem) (n : Nat) (et : Nat) (o l : Nat) : Packet :=
  if et = 0x8100 ∨ et = 0x88a8 ∨ et = 0x9100 then
    match n with
    | 0 => c.r
    | n + 1 =>
      match vlanFromSlice o l with
      | .error e => c.r.setStop (.len (e.addOffset c.off)) .vlanHeader
      | .ok w =>
        Cur.laxSliceEtherType { off := c.off + 4, src := c.src, r := c.r.pushExt (.vlan w) } g n
          (g16 g (o + 2)) (o + 4) (l - 4)
  else if et = 0x88e5 then
    match n with
    | 0 => c.r
    | n + 1 =>
      match laxMacsecFromSlice g o l with
      | .error (.len e) => c.r.setStop (.len (e.addOffset c.off)) e.layer
      | .error e => c.r.setStop e .macsecHeader
      | .ok (.macsec hdr pl src inc) =>
        let r' := c.r.pushExt (.macsec hdr pl src inc)
        match macsecNextEtherType g o with
        | some et' =>
          Cur.laxSliceEtherType
            { off := c.off + hdr.l, src := if src ≠ .slice then src else c.src, r := r' } g n et'
            pl.o pl.l
        | none => r'
      | .ok _ => c.r
  else if et = 0x0806 then c.laxSliceArp g o l
  else if et = 0x0800 ∨ et = 0x86dd then c.laxSliceIp g o l
  else c.r

/-- LaxSlicedPacket::from_ethernet -/
def laxSlicedFromEthernet (g : Mem) (n : Nat) : Except LenError Packet :=
  match eth2FromSlice 0 n with
  | .error e => .error e
  | .ok w =>
    .ok (Cur.laxSliceEtherType { off := 14, src := .slice, r := Packet.empty.setLink (.eth2 w) } g 3
      (g16 g 12) 14 (n - 14))

/-- LaxSlicedPacket::from_ether_type -/
def laxSlicedFromEtherType (g : Mem) (et : Nat) (n : Nat) : Packet :=
  Cur.laxSliceEtherType
    { off := 0, src := .slice, r := Packet.empty.setLink (.etherPayload et ⟨0, n⟩) } g 3 et 0 n

/-- LaxSlicedPacket::from_ip (LaxSlicedPacketCursor::parse_from_ip) -/
def laxSlicedFromIp (g : Mem) (n : Nat) : Except PErr Packet :=
  match laxIpSliceFromSlice g 0 n with
  | .error e => .error e
  | .ok (ip, stop) =>
    let r1 := Packet.empty.setNet (.ip ip)
    let r2 : Packet :=
      match stop with
      | none => r1
      | some (e, ly) => r1.setStop e ly
    let c : Cur := { off := ip.pl.w.o, src := .slice, r := r2 }
    .ok (c.laxSliceTransport g ip.pl)

end EpModel.Dec
