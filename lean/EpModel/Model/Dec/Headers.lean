import EpModel.Model.Dec.Sliced
/-
  PacketHeaders (packet_headers.rs) and LaxPacketHeaders (lax_packet_headers.rs): the
  hand-rolled loops that decode into header structs.  Header *values* are functions of the header
  windows recorded here (the field extraction itself is the subject of C08/C15); this model is
  about layering, boundaries, payload windows and errors.
-/
namespace EpModel.Dec
open EpModel

/-- PayloadSlice / LaxPayloadSlice -/
inductive Pay
  | empty
  | ether (et : Nat) (src : LenSource) (w : Win) (inc : Bool)
  | macsecMod (w : Win) (inc : Bool)
  | ip (pl : IpPl)
  | udp (w : Win) (inc : Bool)
  | tcp (w : Win) (inc : Bool)
  | icmp4 (w : Win) (inc : Bool)
  | icmp6 (w : Win) (inc : Bool)
  | linuxSll (w : Win)
deriving DecidableEq, Repr, Inhabited

structure Headers where
  p : Packet
  pay : Pay
deriving DecidableEq, Repr, Inhabited

/-! ### PacketHeaders -/

/-- `read_transport` (packet_headers.rs): transport header + payload, or a length/TCP error with a
    still relative offset. -/
def readTransport (g : Mem) (pl : IpPl) : Except PErr (Option TpR × Pay) :=
  if pl.frag then .ok (none, .ip pl)
  else
    let o := pl.w.o
    let l := pl.w.l
    let fix (e : LenError) : PErr := .len (e.srcIfSlice pl.src)
    if pl.num = 1 then
      match icmp4FromSlice g o l with
      | .error e => .error (fix e)
      | .ok w => .ok (some (.icmp4 w), .icmp4 ⟨o + icmp4HeaderLen g o, l - icmp4HeaderLen g o⟩ false)
    else if pl.num = 58 then
      match icmp6FromSlice o l with
      | .error e => .error (fix e)
      | .ok w => .ok (some (.icmp6 w), .icmp6 ⟨o + 8, l - 8⟩ false)
    else if pl.num = 17 then
      match udpFromSlice g o l with
      | .error e => .error (fix e)
      | .ok w => .ok (some (.udp w), .udp ⟨w.o + 8, w.l - 8⟩ false)
    else if pl.num = 6 then
      match tcpFromSlice g o l with
      | .error (.len e) => .error (fix e)
      | .error e => .error e
      | .ok hl => .ok (some (.tcp ⟨o, l⟩ hl), .tcp ⟨o + hl, l - hl⟩ false)
    else .ok (none, .ip pl)

/-- the IP branch of `phNet`: IP headers, then `read_transport` -/
def phIpPart (g : Mem) (o0 o : Nat) (r : Packet) (ipr : Except PErr IpR) : Except PErr Headers :=
  match ipr with
  | .error e => .error (lenAddOff (o - o0) e)
  | .ok ip =>
    match readTransport g ip.pl with
    | .error e => .error (lenAddOff (ip.pl.w.o - o0) e)
    | .ok (tp, pay') =>
      .ok { p := { link := r.link, exts := r.exts, net := some (.ip ip), tp := tp, stop := none },
            pay := pay' }

/-- the part of `PacketHeaders::from_ether_type` behind the link-extension loop. `o0` = start of the
    slice given to from_ether_type (error offsets are pointer differences to it). -/
def phNet (g : Mem) (o0 : Nat) (et o l : Nat) (r : Packet) (pay : Pay) : Except PErr Headers :=
  if et = 0x0800 then phIpPart g o0 o r (ipHeadersFromIpv4Slice g o l)
  else if et = 0x86dd then phIpPart g o0 o r (ipHeadersFromIpv6Slice g o l)
  else if et = 0x0806 then
    match arpFromSlice g o l with
    | .error e => .error (.len (e.addOffset (o - o0)))
    | .ok w => .ok { p := r.setNet (.arp w), pay := .empty }
  else .ok { p := r, pay := pay }

/-- the link-extension loop of `PacketHeaders::from_ether_type` -/
def phLoop (g : Mem) (o0 : Nat) (n : Nat) (et o l : Nat) (src : LenSource) (r : Packet) (pay : Pay) :
    Except PErr Headers :=
  if et = 0x8100 ∨ et = 0x88a8 ∨ et = 0x9100 then
    match n with
    | 0 => phNet g o0 et o l r pay
    | n + 1 =>
      match vlanFromSlice o l with
      | .error e => .error (.len (e.addOffset (o - o0)))
      | .ok w =>
        let et' := g16 g (o + 2)
        phLoop g o0 n et' (o + 4) (l - 4) src (r.pushExt (.vlan ⟨w.o, 4⟩))
          (.ether et' src ⟨o + 4, l - 4⟩ false)
  else if et = 0x88e5 then
    match n with
    | 0 => phNet g o0 et o l r pay
    | n + 1 =>
      match macsecFromSlice g o l with
      | .error (.len e) => .error (.len (e.addOffset (o - o0)))
      | .error e => .error e
      | .ok (.macsec hdr pl msrc inc) =>
        let r' := r.pushExt (.macsec hdr pl msrc inc)
        match macsecNextEtherType g o with
        | some et' =>
          let src' := if msrc ≠ .slice then msrc else src
          phLoop g o0 n et' pl.o pl.l src' r' (.ether et' src' pl false)
        | none => .ok { p := r', pay := .macsecMod pl false }
      | .ok _ => .ok { p := r, pay := pay }
  else phNet g o0 et o l r pay

/-- PacketHeaders::from_ether_type -/
def phFromEtherType (g : Mem) (et : Nat) (o l : Nat) : Except PErr Headers :=
  phLoop g o 3 et o l .slice Packet.empty (.ether et .slice ⟨o, l⟩ false)

/-- PacketHeaders::from_ethernet_slice -/
def phFromEthernet (g : Mem) (n : Nat) : Except PErr Headers :=
  match eth2FromSlice 0 n with
  | .error e => .error (.len e)
  | .ok _ =>
    match phFromEtherType g (g16 g 12) 14 (n - 14) with
    | .error e => .error (lenAddOff 14 e)
    | .ok h => .ok { p := h.p.setLink (.eth2 ⟨0, 14⟩), pay := h.pay }

/-- PacketHeaders::from_ip_slice -/
def phFromIp (g : Mem) (n : Nat) : Except PErr Headers :=
  match ipHeadersFromSlice g 0 n with
  | .error e => .error e
  | .ok ip =>
    match readTransport g ip.pl with
    | .error e => .error (lenAddOff ip.pl.w.o e)
    | .ok (tp, pay) =>
      .ok { p := { link := none, exts := [], net := some (.ip ip), tp := tp, stop := none }, pay := pay }

/-! ### LaxPacketHeaders -/

/-- the transport part of `LaxPacketHeaders::add_ip`: `r1` = result with the IP layer set, `off'` = offset
    of the IP payload from the start of the slice given to the entry point -/
def lphTransport (g : Mem) (ip : IpR) (r1 : Packet) (off' : Nat) : Headers :=
  let po := ip.pl.w.o
  let pl := ip.pl.w.l
  let inc := ip.pl.inc
  let fix (e : LenError) : PErr :=
    if e.src = .slice then .len ((e.withSrc ip.pl.src).addOffset off') else .len e
  if ip.pl.num = 1 then
    match icmp4FromSlice g po pl with
    | .ok w =>
      { p := r1.setTp (.icmp4 w),
        pay := .icmp4 ⟨po + icmp4HeaderLen g po, pl - icmp4HeaderLen g po⟩ inc }
    | .error e => { p := r1.setStop (fix e) .icmpv4, pay := .ip ip.pl }
  else if ip.pl.num = 58 then
    match icmp6FromSlice po pl with
    | .ok w => { p := r1.setTp (.icmp6 w), pay := .icmp6 ⟨po + 8, pl - 8⟩ inc }
    | .error e => { p := r1.setStop (fix e) .icmpv6, pay := .ip ip.pl }
  else if ip.pl.num = 17 then
    match udpFromSliceLax g po pl with
    | .ok w => { p := r1.setTp (.udp w), pay := .udp ⟨w.o + 8, w.l - 8⟩ inc }
    | .error e => { p := r1.setStop (fix e) .udpHeader, pay := .ip ip.pl }
  else if ip.pl.num = 6 then
    match tcpFromSlice g po pl with
    | .ok hl => { p := r1.setTp (.tcp ⟨po, pl⟩ hl), pay := .tcp ⟨po + hl, pl - hl⟩ inc }
    | .error (.len e) => { p := r1.setStop (fix e) .tcpHeader, pay := .ip ip.pl }
    | .error e => { p := r1.setStop e .tcpHeader, pay := .ip ip.pl }
  else { p := r1, pay := .ip ip.pl }

/-- LaxPacketHeaders::add_ip on the result so far; `off` = offset of `(o, l)` from the start of the
    slice given to the entry point. `Err` only if the IP header itself is undecodable. -/
def lphAddIp (g : Mem) (off : Nat) (o l : Nat) (r : Packet) : Except PErr Headers :=
  match ipHeadersFromSliceLax g o l with
  | .error e => .error e
  | .ok (ip, stop) =>
    let r1 := r.setNet (.ip ip)
    match stop with
    | some (.len e, ly) =>
      .ok { p := r1.setStop (.len ((e.addOffset off).withSrc ip.pl.src)) ly, pay := .ip ip.pl }
    | some (e, ly) => .ok { p := r1.setStop e ly, pay := .ip ip.pl }
    | none =>
      if ip.pl.frag then .ok { p := r1, pay := .ip ip.pl }
      else .ok (lphTransport g ip r1 (off + (ip.pl.w.o - o)))

/-- the part of `LaxPacketHeaders::from_ether_type` behind the loop -/
def lphNet (g : Mem) (off : Nat) (et o l : Nat) (r : Packet) (pay : Pay) : Headers :=
  if et = 0x0800 ∨ et = 0x86dd then
    match lphAddIp g off o l r with
    | .ok h => h
    | .error (.len e) => { p := r.setStop (.len (e.addOffset off)) .ipHeader, pay := pay }
    | .error e => { p := r.setStop e .ipHeader, pay := pay }
  else if et = 0x0806 then
    match arpFromSlice g o l with
    | .error e => { p := r.setStop (.len (e.addOffset off)) .arp, pay := pay }
    | .ok w => { p := r.setNet (.arp w), pay := .empty }
  else { p := r, pay := pay }

/-- the loop of `LaxPacketHeaders::from_ether_type`; `off` is the running `offset` variable -/
def lphLoop (g : Mem) (n : Nat) (off : Nat) (et o l : Nat) (src : LenSource) (r : Packet) (pay : Pay) :
    Headers :=
  if et = 0x8100 ∨ et = 0x88a8 ∨ et = 0x9100 then
    match n with
    | 0 => lphNet g off et o l r pay
    | n + 1 =>
      match vlanFromSlice o l with
      | .error e => { p := r.setStop (.len (e.addOffset off)) .vlanHeader, pay := pay }
      | .ok w =>
        let et' := g16 g (o + 2)
        lphLoop g n (off + 4) et' (o + 4) (l - 4) src (r.pushExt (.vlan ⟨w.o, 4⟩))
          (.ether et' src ⟨o + 4, l - 4⟩ false)
  else if et = 0x88e5 then
    match n with
    | 0 => lphNet g off et o l r pay
    | n + 1 =>
      match laxMacsecFromSlice g o l with
      | .error (.len e) => { p := r.setStop (.len (e.addOffset off)) .macsecHeader, pay := pay }
      | .error e => { p := r.setStop e .macsecHeader, pay := pay }
      | .ok (.macsec hdr pl msrc inc) =>
        let r' := r.pushExt (.macsec hdr pl msrc inc)
        match macsecNextEtherType g o with
        | some et' =>
          let src' := if msrc ≠ .slice then msrc else src
          lphLoop g n (off + hdr.l) et' pl.o pl.l src' r' (.ether et' src' pl inc)
        | none => { p := r', pay := .macsecMod pl inc }
      | .ok _ => { p := r, pay := pay }
  else lphNet g off et o l r pay

/-- LaxPacketHeaders::from_ether_type -/
def lphFromEtherType (g : Mem) (et : Nat) (o l : Nat) : Headers :=
  lphLoop g 3 0 et o l .slice Packet.empty (.ether et .slice ⟨o, l⟩ false)

def stopAddOff (k : Nat) (p : Packet) : Packet :=
  match p.stop with
  | some (.len e, ly) => { link := p.link, exts := p.exts, net := p.net, tp := p.tp,
                           stop := some (.len (e.addOffset k), ly) }
  | _ => p

/-- LaxPacketHeaders::from_ethernet -/
def lphFromEthernet (g : Mem) (n : Nat) : Except LenError Headers :=
  match eth2FromSlice 0 n with
  | .error e => .error e
  | .ok _ =>
    let h := lphFromEtherType g (g16 g 12) 14 (n - 14)
    .ok { p := (stopAddOff 14 h.p).setLink (.eth2 ⟨0, 14⟩), pay := h.pay }

/-- LaxPacketHeaders::from_ip -/
def lphFromIp (g : Mem) (n : Nat) : Except PErr Headers :=
  lphAddIp g 0 0 n Packet.empty

/-- LaxPacketHeaders::from_linux_sll -/
def lphFromLinuxSll (g : Mem) (n : Nat) : Except PErr Headers :=
  match sllFromSlice g 0 n with
  | .error e => .error e
  | .ok _ =>
    match sllProtoOf (g16 g 2) (g16 g 14) with
    | .ok (.etherType et) =>
      let h := lphFromEtherType g et 16 (n - 16)
      .ok { p := (stopAddOff 16 h.p).setLink (.sll ⟨0, 16⟩), pay := h.pay }
    | _ => .ok { p := Packet.empty.setLink (.sll ⟨0, 16⟩), pay := .linuxSll ⟨16, n - 16⟩ }

end EpModel.Dec
