import EpModel.Model.Basic
/-
  Shared types of the decoding model (families `dec.*`; properties C01–C07).

  A Rust `&[u8]` that points into the caller's buffer is modelled as a *window* `(o, l)` of a
  fixed memory `g : Nat → Nat` (byte value at absolute position; the caller's slice is the window
  `(0, n)`).  Every model function receives the memory and the window of the slice the Rust
  function receives and reads `g (o + i)` only behind the same length checks as the code.  Windows in
  results are absolute (what the harness prints as pointer differences); offsets inside errors are
  relative exactly where the Rust code leaves them relative (`add_offset` calls are mirrored).
-/
namespace EpModel.Dec
open EpModel

abbrev Mem := Nat → Nat

def memOf (b : Bytes) : Mem := bAt b

def g16 (g : Mem) (i : Nat) : Nat := g i * 256 + g (i + 1)
def g32 (g : Mem) (i : Nat) : Nat := g i * 16777216 + g (i + 1) * 65536 + g (i + 2) * 256 + g (i + 3)

structure Win where
  o : Nat
  l : Nat
deriving DecidableEq, Repr, Inhabited

inductive LenSource
  | slice | macsecShortLength | ipv4HeaderTotalLen | ipv6HeaderPayloadLen | udpHeaderLen
  | tcpHeaderLen | arpAddrLengths
deriving DecidableEq, Repr, Inhabited

inductive Layer
  | linuxSllHeader | ethernet2Header | etherPayload | vlanHeader | macsecHeader | macsecPacket
  | ipHeader | ipv4Header | ipv4Packet | ipAuthHeader | ipv6Header | ipv6Packet | ipv6ExtHeader
  | ipv6HopByHopHeader | ipv6DestOptionsHeader | ipv6RouteHeader | ipv6FragHeader | udpHeader
  | udpPayload | tcpHeader | icmpv4 | icmpv4Timestamp | icmpv4TimestampReply | icmpv6 | igmp | arp
deriving DecidableEq, Repr, Inhabited

structure LenError where
  req : Nat
  len : Nat
  src : LenSource
  layer : Layer
  off : Nat
deriving DecidableEq, Repr, Inhabited

def LenError.addOffset (e : LenError) (k : Nat) : LenError :=
  { req := e.req, len := e.len, src := e.src, layer := e.layer, off := e.off + k }

def LenError.withSrc (e : LenError) (s : LenSource) : LenError :=
  { req := e.req, len := e.len, src := s, layer := e.layer, off := e.off }

/-- `if LenSource::Slice == err.len_source { err.len_source = s }` -/
def LenError.srcIfSlice (e : LenError) (s : LenSource) : LenError :=
  if e.src = LenSource.slice then e.withSrc s else e

/-- err::packet::SliceError with all nested content errors flattened. -/
inductive PErr
  | len (e : LenError)
  | sllPacketType (v : Nat)      -- LinuxSll(UnsupportedPacketTypeField)
  | sllArpHw (v : Nat)           -- LinuxSll(UnsupportedArpHardwareId)
  | macsecVersion                -- Macsec(UnexpectedVersion)
  | macsecShortLen               -- Macsec(InvalidUnmodifiedShortLen)
  | ipVersion (v : Nat)          -- Ip(UnsupportedIpVersion)
  | ipIhl (v : Nat)              -- Ip(Ipv4HeaderLengthSmallerThanHeader)
  | ipv4Version (v : Nat)        -- Ipv4(UnexpectedVersion)
  | ipv4Ihl (v : Nat)            -- Ipv4(HeaderLengthSmallerThanHeader)
  | ipv6Version (v : Nat)        -- Ipv6(UnexpectedVersion)
  | ipv4ExtsZeroLen              -- Ipv4Exts(ZeroPayloadLen)
  | ipv6HopByHop                 -- Ipv6Exts(HopByHopNotAtStart)
  | ipv6ExtsAuthZeroLen          -- Ipv6Exts(IpAuth(ZeroPayloadLen))
  | tcpDataOffset (v : Nat)      -- Tcp(DataOffsetTooSmall)
deriving DecidableEq, Repr, Inhabited

/-- payload of an IP layer (IpPayloadSlice / LaxIpPayloadSlice). -/
structure IpPl where
  num : Nat
  frag : Bool
  src : LenSource
  w : Win
  inc : Bool
deriving DecidableEq, Repr, Inhabited

inductive LinkR
  | eth2 (w : Win)                       -- Ethernet2Slice (header + payload, no FCS)
  | sll (w : Win)                        -- LinuxSllSlice
  | etherPayload (et : Nat) (w : Win)    -- EtherPayloadSlice given by the caller
deriving DecidableEq, Repr, Inhabited

inductive ExtR
  | vlan (w : Win)                                          -- SingleVlanSlice
  | macsec (hdr : Win) (pl : Win) (src : LenSource) (inc : Bool)   -- (Lax)MacsecSlice
deriving DecidableEq, Repr, Inhabited

/-- the six slots of `Ipv6Extensions` (windows of the headers that were stored). -/
structure ExtSlots where
  hbh : Option Win
  dest : Option Win
  routing : Option Win
  finalDest : Option Win
  frag : Option Win
  auth : Option Win
deriving DecidableEq, Repr, Inhabited

def ExtSlots.none : ExtSlots :=
  { hbh := .none, dest := .none, routing := .none, finalDest := .none, frag := .none, auth := .none }

/-- an IP layer: `Ipv4Slice` / `Ipv6Slice` / `IpSlice` and their lax twins, or `IpHeaders` +
    payload (struct mode: `slots` are the stored extension headers, `exts` the bytes consumed). -/
structure IpR where
  v4 : Bool
  hdr : Win
  auth : Option Win          -- IPv4: the authentication header
  exts : Win                 -- IPv6: slice covering the extension headers that were walked
  first : Option Nat         -- IPv6: Ipv6ExtensionsSlice::first_header
  slots : ExtSlots           -- IPv6 struct mode
  pl : IpPl
deriving DecidableEq, Repr, Inhabited

inductive NetR
  | arp (w : Win)
  | ip (r : IpR)
deriving DecidableEq, Repr, Inhabited

inductive TpR
  | udp (w : Win)
  | tcp (w : Win) (hl : Nat)
  | icmp4 (w : Win)
  | icmp6 (w : Win)
deriving DecidableEq, Repr, Inhabited

/-- SlicedPacket / LaxSlicedPacket (strict results have `stop = none` and nothing incomplete). -/
structure Packet where
  link : Option LinkR
  exts : List ExtR
  net : Option NetR
  tp : Option TpR
  stop : Option (PErr × Layer)
deriving DecidableEq, Repr, Inhabited

def Packet.empty : Packet := { link := none, exts := [], net := none, tp := none, stop := none }

namespace etherType
def ipv4 : Nat := 0x0800
def ipv6 : Nat := 0x86dd
def arp : Nat := 0x0806
def vlanTagged : Nat := 0x8100
def providerBridging : Nat := 0x88a8
def vlanDoubleTagged : Nat := 0x9100
def macsec : Nat := 0x88e5
end etherType

namespace ipNumber
def hopByHop : Nat := 0
def icmp : Nat := 1
def tcp : Nat := 6
def udp : Nat := 17
def route : Nat := 43
def frag : Nat := 44
def auth : Nat := 51
def icmp6 : Nat := 58
def destOpts : Nat := 60
end ipNumber

end EpModel.Dec
