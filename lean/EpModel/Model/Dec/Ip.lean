import EpModel.Model.Dec.Types
/-
  IP layer: Ipv4HeaderSlice, IpAuthHeaderSlice, Ipv6HeaderSlice, Ipv6RawExtHeaderSlice,
  Ipv6FragmentHeaderSlice, the extension chain walkers (slice mode / struct mode, strict / lax,
  and the unchecked re-walk iterator), and the IP boundary implementations
  Ipv4Slice, Ipv6Slice::{from_slice, from_slice_lax}, IpSlice, LaxIpv4Slice, LaxIpv6Slice,
  LaxIpSlice, IpHeaders::{from_slice, from_slice_lax, from_ipv4_slice(_lax), from_ipv6_slice(_lax)}.
-/
namespace EpModel.Dec
open EpModel

/-! ### single headers -/

/-- Ipv4HeaderSlice::from_slice (also Ipv4Header::from_slice): header length -/
def ipv4HeaderFromSlice (g : Mem) (o l : Nat) : Except PErr Nat :=
  if l < 20 then
    .error (.len { req := 20, len := l, src := .slice, layer := .ipv4Header, off := 0 })
  else
    let version := g o / 16
    let ihl := g o % 16
    if version ≠ 4 then .error (.ipv4Version version)
    else if ihl < 5 then .error (.ipv4Ihl ihl)
    else
      let hl := ihl * 4
      if l < hl then
        .error (.len { req := hl, len := l, src := .slice, layer := .ipv4Header, off := 0 })
      else .ok hl

/-- Ipv4HeaderSlice::is_fragmenting_payload -/
def ipv4IsFragmenting (g : Mem) (o : Nat) : Bool :=
  ((g (o + 6) / 32) % 2 = 1) ∨ ((g (o + 6) % 32) * 256 + g (o + 7) ≠ 0)

/-- Ipv6HeaderSlice::from_slice -/
def ipv6HeaderFromSlice (g : Mem) (o l : Nat) : Except PErr Unit :=
  if l < 40 then
    .error (.len { req := 40, len := l, src := .slice, layer := .ipv6Header, off := 0 })
  else
    let version := g o / 16
    if version ≠ 6 then .error (.ipv6Version version) else .ok ()

inductive AhErr
  | len (e : LenError)
  | zero
deriving DecidableEq, Repr, Inhabited

/-- IpAuthHeaderSlice::from_slice: header length -/
def ahFromSlice (g : Mem) (o l : Nat) : Except AhErr Nat :=
  if l < 12 then
    .error (.len { req := 12, len := l, src := .slice, layer := .ipAuthHeader, off := 0 })
  else
    let enc := g (o + 1)
    if enc < 1 then .error .zero
    else
      let hl := (enc + 2) * 4
      if l < hl then
        .error (.len { req := hl, len := l, src := .slice, layer := .ipAuthHeader, off := 0 })
      else .ok hl

/-- Ipv6RawExtHeaderSlice::from_slice: header length -/
def rawExtFromSlice (g : Mem) (o l : Nat) : Except LenError Nat :=
  if l < 8 then .error { req := 8, len := l, src := .slice, layer := .ipv6ExtHeader, off := 0 }
  else
    let hl := (g (o + 1) + 1) * 8
    if l < hl then .error { req := hl, len := l, src := .slice, layer := .ipv6ExtHeader, off := 0 }
    else .ok hl

/-- Ipv6FragmentHeaderSlice::from_slice -/
def fragFromSlice (l : Nat) : Except LenError Nat :=
  if l < 8 then .error { req := 8, len := l, src := .slice, layer := .ipv6FragHeader, off := 0 }
  else .ok 8

/-- Ipv6FragmentHeaderSlice::is_fragmenting_payload -/
def fragIsFragmenting (g : Mem) (o : Nat) : Bool :=
  (g (o + 3) % 2 = 1) ∨ ((g (o + 2) * 256 + g (o + 3)) / 8 ≠ 0)

/-! ### IPv6 extension chains -/

inductive ExtErr
  | len (e : LenError)
  | hopByHop
  | authZero
deriving DecidableEq, Repr, Inhabited

structure ExtsOut where
  next : Nat                          -- next header / payload protocol number
  frag : Bool                         -- fragmented
  rest : Win                          -- what follows the walked headers
  slots : ExtSlots                    -- struct mode: the stored headers
  stop : Option (ExtErr × Layer)      -- lax: where and why the walk stopped
deriving DecidableEq, Repr, Inhabited

/-- struct mode: does a destination-options (60) / routing (43) header still fit `Ipv6Extensions`? -/
def rawFits (nh : Nat) (slots : ExtSlots) : Bool :=
  if nh = 60 then
    if slots.routing.isSome then ¬ slots.finalDest.isSome else ¬ slots.dest.isSome
  else ¬ slots.routing.isSome

def rawLayer (nh : Nat) : Layer := if nh = 60 then .ipv6DestOptionsHeader else .ipv6RouteHeader

/-- the slot a destination-options / routing header is stored in -/
def rawStore (nh : Nat) (slots : ExtSlots) (w : Win) : ExtSlots :=
  if nh = 60 then
    if slots.routing.isSome then
      { hbh := slots.hbh, dest := slots.dest, routing := slots.routing,
        finalDest := some w, frag := slots.frag, auth := slots.auth }
    else
      { hbh := slots.hbh, dest := some w, routing := slots.routing,
        finalDest := slots.finalDest, frag := slots.frag, auth := slots.auth }
  else
    { hbh := slots.hbh, dest := slots.dest, routing := some w,
      finalDest := slots.finalDest, frag := slots.frag, auth := slots.auth }

def fragStore (slots : ExtSlots) (w : Win) : ExtSlots :=
  { hbh := slots.hbh, dest := slots.dest, routing := slots.routing,
    finalDest := slots.finalDest, frag := some w, auth := slots.auth }

def authStore (slots : ExtSlots) (w : Win) : ExtSlots :=
  { hbh := slots.hbh, dest := slots.dest, routing := slots.routing,
    finalDest := slots.finalDest, frag := slots.frag, auth := some w }

def extsDone (nh : Nat) (frag : Bool) (slots : ExtSlots) (o l : Nat) : ExtsOut :=
  { next := nh, frag := frag, rest := ⟨o, l⟩, slots := slots, stop := none }

def extsFail (nh : Nat) (frag : Bool) (slots : ExtSlots) (o l : Nat) (e : ExtErr) (ly : Layer) : ExtsOut :=
  { next := nh, frag := frag, rest := ⟨o, l⟩, slots := slots, stop := some (e, ly) }

def extLenErr (req l0 l : Nat) (layer : Layer) : ExtErr :=
  .len { req := req, len := l, src := .slice, layer := layer, off := l0 - l }

/-- The loop of `Ipv6ExtensionsSlice::from_slice(_lax)` (`sm = false`) and of
    `Ipv6Extensions::from_slice(_lax)` (`sm = true`: a header that no longer fits the struct ends
    the walk without an error).  `l0` = length of the start slice (error offsets are
    `start_slice.len() - rest.len()`); `(o, l)` = rest. -/
def extsLoop (g : Mem) (sm : Bool) (l0 : Nat) (nh : Nat) (frag : Bool) (slots : ExtSlots)
    (o l : Nat) : ExtsOut :=
  if nh = 0 then extsFail nh frag slots o l .hopByHop .ipv6HopByHopHeader
  else if nh = 60 ∨ nh = 43 then
    if sm ∧ ¬ rawFits nh slots then extsDone nh frag slots o l
    else if h8 : l < 8 then
      extsFail nh frag slots o l (extLenErr 8 l0 l .ipv6ExtHeader) (rawLayer nh)
    else if hl' : l < (g (o + 1) + 1) * 8 then
      extsFail nh frag slots o l (extLenErr ((g (o + 1) + 1) * 8) l0 l .ipv6ExtHeader) (rawLayer nh)
    else
      extsLoop g sm l0 (g o) frag (rawStore nh slots ⟨o, (g (o + 1) + 1) * 8⟩)
        (o + (g (o + 1) + 1) * 8) (l - (g (o + 1) + 1) * 8)
  else if nh = 44 then
    if sm ∧ slots.frag.isSome then extsDone nh frag slots o l
    else if h8 : l < 8 then
      extsFail nh frag slots o l (extLenErr 8 l0 l .ipv6FragHeader) .ipv6FragHeader
    else
      extsLoop g sm l0 (g o) (frag || fragIsFragmenting g o) (fragStore slots ⟨o, 8⟩) (o + 8) (l - 8)
  else if nh = 51 then
    if sm ∧ slots.auth.isSome then extsDone nh frag slots o l
    else if h12 : l < 12 then
      extsFail nh frag slots o l (extLenErr 12 l0 l .ipAuthHeader) .ipAuthHeader
    else if g (o + 1) < 1 then extsFail nh frag slots o l .authZero .ipAuthHeader
    else if hl' : l < (g (o + 1) + 2) * 4 then
      extsFail nh frag slots o l (extLenErr ((g (o + 1) + 2) * 4) l0 l .ipAuthHeader) .ipAuthHeader
    else
      extsLoop g sm l0 (g o) frag (authStore slots ⟨o, (g (o + 1) + 2) * 4⟩)
        (o + (g (o + 1) + 2) * 4) (l - (g (o + 1) + 2) * 4)
  else extsDone nh frag slots o l
termination_by l
decreasing_by all_goals omega

/-- `Ipv6ExtensionsSlice::from_slice_lax` / `Ipv6Extensions::from_slice_lax` on the slice `(o, l)`:
    the optional hop-by-hop header first, then the loop. -/
def extsWalk (g : Mem) (sm : Bool) (nh : Nat) (o l : Nat) : ExtsOut :=
  if nh = 0 then
    match rawExtFromSlice g o l with
    | .error e =>
      { next := nh, frag := false, rest := ⟨o, l⟩, slots := ExtSlots.none,
        stop := some (.len e, .ipv6HopByHopHeader) }
    | .ok hl =>
      extsLoop g sm l (g o) false
        { hbh := some ⟨o, hl⟩, dest := none, routing := none, finalDest := none, frag := none,
          auth := none } (o + hl) (l - hl)
  else extsLoop g sm l nh false ExtSlots.none o l

/-- strict variants: an error of the walk is returned as `Err`. -/
def extsWalkStrict (g : Mem) (sm : Bool) (nh : Nat) (o l : Nat) : Except ExtErr ExtsOut :=
  let r := extsWalk g sm nh o l
  match r.stop with
  | some (e, _) => .error e
  | none => .ok r

/-- `first_header` of the resulting Ipv6ExtensionsSlice -/
def extsFirst (nh : Nat) (l : Nat) (r : ExtsOut) : Option Nat :=
  if r.rest.l ≠ l then some nh else none

/-! ### the unchecked re-walk `Ipv6ExtensionSliceIter` -/

inductive ExtKind | hopByHop | routing | destOpts | fragment | auth
deriving DecidableEq, Repr, Inhabited

/-- one step; `none` = iterator exhausted; `some (.error ())` = an unchecked access would leave the
    slice (undefined behaviour in the Rust code). -/
def extIterNext (g : Mem) (nh o l : Nat) : Option (Except Unit (ExtKind × Win × Nat × Nat × Nat)) :=
  if l = 0 then none
  else if nh = 0 ∨ nh = 43 ∨ nh = 60 then
    let k : ExtKind := if nh = 0 then .hopByHop else if nh = 43 then .routing else .destOpts
    if l < 2 then some (.error ())
    else
      let hl := (g (o + 1) + 1) * 8
      if l < hl then some (.error ()) else some (.ok (k, ⟨o, hl⟩, g o, o + hl, l - hl))
  else if nh = 44 then
    if l < 8 then some (.error ()) else some (.ok (.fragment, ⟨o, 8⟩, g o, o + 8, l - 8))
  else if nh = 51 then
    if l < 2 then some (.error ())
    else
      let hl := (g (o + 1) + 2) * 4
      if l < hl then some (.error ()) else some (.ok (.auth, ⟨o, hl⟩, g o, o + hl, l - hl))
  else none

/-- all items of the iterator (`fuel`-free: every successful step consumes ≥ 4 bytes). -/
def extIterAll (g : Mem) (nh o l : Nat) : Except Unit (List (ExtKind × Win)) :=
  match h : extIterNext g nh o l with
  | none => .ok []
  | some (.error _) => .error ()
  | some (.ok (k, w, nh', o', l')) =>
    if hlt : l' < l then
      match extIterAll g nh' o' l' with
      | .ok xs => .ok ((k, w) :: xs)
      | .error _ => .error ()
    else .error ()
termination_by l

/-! ### IP payload boundaries -/

/-- strict IPv4 boundary (Ipv4Slice, IpSlice, IpHeaders::from_slice): payload window or error;
    `hl` = header length, `tl` = total_len. -/
def ipv4BoundStrict (o l hl tl : Nat) : Except LenError Win :=
  if tl < hl then
    .error { req := hl, len := tl, src := .ipv4HeaderTotalLen, layer := .ipv4Packet, off := 0 }
  else if l < tl then
    .error { req := tl, len := l, src := .slice, layer := .ipv4Packet, off := 0 }
  else .ok ⟨o + hl, tl - hl⟩

/-- lax IPv4 boundary: (payload window, len_source, incomplete) -/
def ipv4BoundLax (o l hl tl : Nat) : Win × LenSource × Bool :=
  if tl < hl then (⟨o + hl, l - hl⟩, .slice, false)
  else if l < tl then (⟨o + hl, l - hl⟩, .slice, true)
  else (⟨o + hl, tl - hl⟩, .ipv4HeaderTotalLen, false)

/-- strict IPv6 boundary: `pl` = payload_length -/
def ipv6BoundStrict (o l pl : Nat) : Except LenError (Win × LenSource) :=
  if pl = 0 ∧ l > 40 then .ok (⟨o + 40, l - 40⟩, .slice)
  else if l < 40 + pl then
    .error { req := 40 + pl, len := l, src := .slice, layer := .ipv6Packet, off := 0 }
  else .ok (⟨o + 40, pl⟩, .ipv6HeaderPayloadLen)

def ipv6BoundLax (o l pl : Nat) : Win × LenSource × Bool :=
  if pl = 0 ∧ l > 40 then (⟨o + 40, l - 40⟩, .slice, false)
  else if l < 40 + pl then (⟨o + 40, l - 40⟩, .slice, true)
  else (⟨o + 40, pl⟩, .ipv6HeaderPayloadLen, false)

/-! ### IPv4 with its single extension (authentication header) -/

def noExts (o : Nat) : Win := ⟨o, 0⟩

def mkV4 (o hl : Nat) (auth : Option Win) (pl : IpPl) : IpR :=
  { v4 := true, hdr := ⟨o, hl⟩, auth := auth, exts := noExts o, first := none,
    slots := ExtSlots.none, pl := pl }

/-- the part of the strict IPv4 decoders behind the header: boundary, then the AH if announced.
    `hdrErr`/`extErr` build the error variants of the respective error type (the content errors
    of the version-specific and the dispatching decoders are different Rust types). -/
def ipv4AfterHeaderStrict (g : Mem) (o l hl : Nat) : Except PErr IpR :=
  let tl := g16 g (o + 2)
  match ipv4BoundStrict o l hl tl with
  | .error e => .error (.len e)
  | .ok hp =>
    let frag := ipv4IsFragmenting g o
    let proto := g (o + 9)
    if proto = 51 then
      match ahFromSlice g hp.o hp.l with
      | .error (.len e) => .error (.len ((e.withSrc .ipv4HeaderTotalLen).addOffset hl))
      | .error .zero => .error .ipv4ExtsZeroLen
      | .ok al =>
        .ok (mkV4 o hl (some ⟨hp.o, al⟩)
          { num := g hp.o, frag := frag, src := .ipv4HeaderTotalLen, w := ⟨hp.o + al, hp.l - al⟩,
            inc := false })
    else
      .ok (mkV4 o hl none
        { num := proto, frag := frag, src := .ipv4HeaderTotalLen, w := hp, inc := false })

/-- lax twin: result + optional stop error of the AH -/
def ipv4AfterHeaderLax (g : Mem) (o l hl : Nat) : IpR × Option (PErr × Layer) :=
  let tl := g16 g (o + 2)
  let (hp, src, inc) := ipv4BoundLax o l hl tl
  let frag := ipv4IsFragmenting g o
  let proto := g (o + 9)
  if proto = 51 then
    match ahFromSlice g hp.o hp.l with
    | .ok al =>
      (mkV4 o hl (some ⟨hp.o, al⟩)
        { num := g hp.o, frag := frag, src := src, w := ⟨hp.o + al, hp.l - al⟩, inc := inc }, none)
    | .error e =>
      (mkV4 o hl none { num := 51, frag := frag, src := src, w := hp, inc := inc },
        some (match e with
          | .len e => (.len ((e.withSrc src).addOffset hl), .ipAuthHeader)
          | .zero => (.ipv4ExtsZeroLen, .ipAuthHeader)))
  else
    (mkV4 o hl none { num := proto, frag := frag, src := src, w := hp, inc := inc }, none)

/-! ### IPv6 with its extension chain -/

def extErrToPErr : ExtErr → PErr
  | .len e => .len e
  | .hopByHop => .ipv6HopByHop
  | .authZero => .ipv6ExtsAuthZeroLen

/-- `sm`: struct mode keeps the decoded headers in the slots of `Ipv6Extensions`; the slice types
    only keep the extension slice. -/
def mkV6 (sm : Bool) (o : Nat) (nh : Nat) (hp : Win) (r : ExtsOut) (src : LenSource) (inc : Bool) : IpR :=
  { v4 := false, hdr := ⟨o, 40⟩, auth := none, exts := ⟨hp.o, hp.l - r.rest.l⟩,
    first := extsFirst nh hp.l r, slots := if sm then r.slots else ExtSlots.none,
    pl := { num := r.next, frag := r.frag, src := src, w := r.rest, inc := inc } }

/-- the strict chain behind the boundary: `hp` = header payload, `src` = its length source; length
    errors of the chain get the boundary's len_source and `+ 40`. -/
def ipv6ChainStrict (g : Mem) (sm : Bool) (o : Nat) (hp : Win) (src : LenSource) : Except PErr IpR :=
  match extsWalkStrict g sm (g (o + 6)) hp.o hp.l with
  | .error (.len e) => .error (.len ((e.withSrc src).addOffset 40))
  | .error e => .error (extErrToPErr e)
  | .ok r => .ok (mkV6 sm o (g (o + 6)) hp r src false)

/-- strict: boundary, then the chain (`sm`: struct mode) -/
def ipv6AfterHeaderStrict (g : Mem) (sm : Bool) (o l : Nat) : Except PErr IpR :=
  match ipv6BoundStrict o l (g16 g (o + 4)) with
  | .error e => .error (.len e)
  | .ok (hp, src) => ipv6ChainStrict g sm o hp src

/-- `Ipv6Slice::from_slice_lax`: lax boundary but a strict chain -/
def ipv6AfterHeaderLaxBoundStrictChain (g : Mem) (o l : Nat) : Except PErr IpR :=
  ipv6ChainStrict g false o (ipv6BoundLax o l (g16 g (o + 4))).1 (ipv6BoundLax o l (g16 g (o + 4))).2.1

def ipv6AfterHeaderLax (g : Mem) (sm : Bool) (o l : Nat) : IpR × Option (PErr × Layer) :=
  let pl := g16 g (o + 4)
  let (hp, src, inc) := ipv6BoundLax o l pl
  let nh := g (o + 6)
  let r := extsWalk g sm nh hp.o hp.l
  (mkV6 sm o nh hp r src inc,
    match r.stop with
    | none => none
    | some (.len e, ly) => some (.len ((e.withSrc src).addOffset 40), ly)
    | some (e, ly) => some (extErrToPErr e, ly))

/-! ### the thirteen entry points -/

/-- Ipv4Slice::from_slice -/
def ipv4SliceFromSlice (g : Mem) (o l : Nat) : Except PErr IpR :=
  match ipv4HeaderFromSlice g o l with
  | .error e => .error e
  | .ok hl => ipv4AfterHeaderStrict g o l hl

/-- LaxIpv4Slice::from_slice -/
def laxIpv4SliceFromSlice (g : Mem) (o l : Nat) : Except PErr (IpR × Option (PErr × Layer)) :=
  match ipv4HeaderFromSlice g o l with
  | .error e => .error e
  | .ok hl => .ok (ipv4AfterHeaderLax g o l hl)

/-- Ipv6Slice::from_slice -/
def ipv6SliceFromSlice (g : Mem) (o l : Nat) : Except PErr IpR :=
  match ipv6HeaderFromSlice g o l with
  | .error e => .error e
  | .ok _ => ipv6AfterHeaderStrict g false o l

/-- Ipv6Slice::from_slice_lax -/
def ipv6SliceFromSliceLax (g : Mem) (o l : Nat) : Except PErr IpR :=
  match ipv6HeaderFromSlice g o l with
  | .error e => .error e
  | .ok _ => ipv6AfterHeaderLaxBoundStrictChain g o l

/-- LaxIpv6Slice::from_slice -/
def laxIpv6SliceFromSlice (g : Mem) (o l : Nat) : Except PErr (IpR × Option (PErr × Layer)) :=
  match ipv6HeaderFromSlice g o l with
  | .error e => .error e
  | .ok _ => .ok (ipv6AfterHeaderLax g false o l)

/-- header checks of the version-dispatching decoders.  `min20`: IpHeaders::from_slice(_lax) check
    `len < 20` first, IpSlice / LaxIpSlice do not. Returns `inl hl` for IPv4, `inr ()` for IPv6. -/
def ipDispatchHeader (g : Mem) (min20 : Bool) (o l : Nat) : Except PErr (Nat ⊕ Unit) :=
  if l = 0 then .error (.len { req := 1, len := l, src := .slice, layer := .ipHeader, off := 0 })
  else
    let version := g o / 16
    if version = 4 then
      if min20 ∧ l < 20 then
        .error (.len { req := 20, len := l, src := .slice, layer := .ipv4Header, off := 0 })
      else
        let ihl := g o % 16
        if ihl < 5 then .error (.ipIhl ihl)
        else
          let hl := ihl * 4
          if l < hl then
            .error (.len { req := hl, len := l, src := .slice, layer := .ipv4Header, off := 0 })
          else .ok (.inl hl)
    else if version = 6 then
      if l < 40 then
        .error (.len { req := 40, len := l, src := .slice, layer := .ipv6Header, off := 0 })
      else .ok (.inr ())
    else .error (.ipVersion version)

/-- IpSlice::from_slice -/
def ipSliceFromSlice (g : Mem) (o l : Nat) : Except PErr IpR :=
  match ipDispatchHeader g false o l with
  | .error e => .error e
  | .ok (.inl hl) => ipv4AfterHeaderStrict g o l hl
  | .ok (.inr _) => ipv6AfterHeaderStrict g false o l

/-- LaxIpSlice::from_slice -/
def laxIpSliceFromSlice (g : Mem) (o l : Nat) : Except PErr (IpR × Option (PErr × Layer)) :=
  match ipDispatchHeader g false o l with
  | .error e => .error e
  | .ok (.inl hl) => .ok (ipv4AfterHeaderLax g o l hl)
  | .ok (.inr _) => .ok (ipv6AfterHeaderLax g false o l)

/-- IpHeaders::from_slice -/
def ipHeadersFromSlice (g : Mem) (o l : Nat) : Except PErr IpR :=
  match ipDispatchHeader g true o l with
  | .error e => .error e
  | .ok (.inl hl) => ipv4AfterHeaderStrict g o l hl
  | .ok (.inr _) => ipv6AfterHeaderStrict g true o l

/-- IpHeaders::from_slice_lax -/
def ipHeadersFromSliceLax (g : Mem) (o l : Nat) : Except PErr (IpR × Option (PErr × Layer)) :=
  match ipDispatchHeader g true o l with
  | .error e => .error e
  | .ok (.inl hl) => .ok (ipv4AfterHeaderLax g o l hl)
  | .ok (.inr _) => .ok (ipv6AfterHeaderLax g true o l)

/-- IpHeaders::from_ipv4_slice -/
def ipHeadersFromIpv4Slice (g : Mem) (o l : Nat) : Except PErr IpR :=
  match ipv4HeaderFromSlice g o l with
  | .error e => .error e
  | .ok hl => ipv4AfterHeaderStrict g o l hl

/-- IpHeaders::from_ipv4_slice_lax (content errors are converted to err::ip::HeaderError) -/
def ipHeadersFromIpv4SliceLax (g : Mem) (o l : Nat) : Except PErr (IpR × Option (PErr × Layer)) :=
  match ipv4HeaderFromSlice g o l with
  | .error (.ipv4Version v) => .error (.ipVersion v)
  | .error (.ipv4Ihl v) => .error (.ipIhl v)
  | .error e => .error e
  | .ok hl => .ok (ipv4AfterHeaderLax g o l hl)

/-- IpHeaders::from_ipv6_slice -/
def ipHeadersFromIpv6Slice (g : Mem) (o l : Nat) : Except PErr IpR :=
  match ipv6HeaderFromSlice g o l with
  | .error e => .error e
  | .ok _ => ipv6AfterHeaderStrict g true o l

/-- IpHeaders::from_ipv6_slice_lax -/
def ipHeadersFromIpv6SliceLax (g : Mem) (o l : Nat) : Except PErr (IpR × Option (PErr × Layer)) :=
  match ipv6HeaderFromSlice g o l with
  | .error e => .error e
  | .ok _ => .ok (ipv6AfterHeaderLax g true o l)

end EpModel.Dec
