import EpModel.Model.Dec.Types
/-
  Link layer slices: Ethernet2Slice, LinuxSllSlice / LinuxSllHeaderSlice, SingleVlanSlice,
  MacsecHeaderSlice, MacsecSlice, LaxMacsecSlice, ArpPacketSlice  (etherparse/src/link/*, net/arp_packet_slice.rs).
-/
namespace EpModel.Dec
open EpModel

/-- Ethernet2Slice::from_slice_without_fcs -/
def eth2FromSlice (o l : Nat) : Except LenError Win :=
  if l < 14 then
    .error { req := 14, len := l, src := .slice, layer := .ethernet2Header, off := 0 }
  else .ok ⟨o, l⟩

/-- Ethernet2Slice::from_slice_with_crc32_fcs (payload excludes the 4 FCS bytes) -/
def eth2FromSliceFcs (o l : Nat) : Except LenError Win :=
  if l < 14 + 4 then
    .error { req := 14 + 4, len := l, src := .slice, layer := .ethernet2Header, off := 0 }
  else .ok ⟨o, l⟩

/-- LinuxNonstandardEtherType::try_from(v).is_ok() -/
def isLinuxNonstandardEtherType (v : Nat) : Bool :=
  (1 ≤ v ∧ v ≤ 9) ∨ (0x0c ≤ v ∧ v ≤ 0x0e) ∨ v = 0x10 ∨ v = 0x11 ∨ (0x15 ≤ v ∧ v ≤ 0x1c) ∨
    (0xf5 ≤ v ∧ v ≤ 0xfa)

/-- kinds of LinuxSllProtocolType -/
inductive SllProto
  | ignored (v : Nat) | netlink (v : Nat) | gre (v : Nat) | etherType (v : Nat) | nonstandard (v : Nat)
deriving DecidableEq, Repr, Inhabited

/-- LinuxSllProtocolType::try_from((arp_hardware_id, protocol_type)) -/
def sllProtoOf (hw pt : Nat) : Except PErr SllProto :=
  if hw = 824 then .ok (.netlink pt)            -- NETLINK
  else if hw = 778 then .ok (.gre pt)           -- IPGRE
  else if hw = 803 then .ok (.ignored pt)       -- IEEE80211_RADIOTAP
  else if hw = 770 then .ok (.ignored pt)       -- FRAD
  else if hw = 1 then                           -- ETHERNET
    if isLinuxNonstandardEtherType pt then .ok (.nonstandard pt) else .ok (.etherType pt)
  else .error (.sllArpHw hw)

/-- LinuxSllHeaderSlice::from_slice / LinuxSllSlice::from_slice (same checks; the slice keeps header+payload) -/
def sllFromSlice (g : Mem) (o l : Nat) : Except PErr Win :=
  if l < 16 then
    .error (.len { req := 16, len := l, src := .slice, layer := .linuxSllHeader, off := 0 })
  else
    let pt := g16 g o
    if 8 ≤ pt then .error (.sllPacketType pt)   -- LinuxSllPacketType::try_from: 0..=7 valid
    else
      match sllProtoOf (g16 g (o + 2)) (g16 g (o + 14)) with
      | .error e => .error e
      | .ok _ => .ok ⟨o, l⟩

/-- SingleVlanSlice::from_slice -/
def vlanFromSlice (o l : Nat) : Except LenError Win :=
  if l < 4 then .error { req := 4, len := l, src := .slice, layer := .vlanHeader, off := 0 }
  else .ok ⟨o, l⟩

/-- `0 == tci_an & 0b1100` -/
def macsecUnmodified (tci : Nat) : Bool := (tci / 4) % 4 = 0
/-- `0 != tci_an & 0b10_0000` -/
def macsecSciPresent (tci : Nat) : Bool := (tci / 32) % 2 = 1

/-- `6 + if unmodified { 2 } else { 0 } + if sci present { 8 } else { 0 }` -/
def macsecHeaderLen (tci : Nat) : Nat :=
  6 + (if macsecUnmodified tci then 2 else 0) + (if macsecSciPresent tci then 8 else 0)

/-- MacsecHeaderSlice::from_slice: returns the header length -/
def macsecHeaderFromSlice (g : Mem) (o l : Nat) : Except PErr Nat :=
  if l < 6 then
    .error (.len { req := 6, len := l, src := .slice, layer := .macsecHeader, off := 0 })
  else
    let tci := g o
    if (tci / 128) % 2 = 1 then .error .macsecVersion
    else if macsecUnmodified tci ∧ (g (o + 1)) % 64 = 1 then .error .macsecShortLen
    else
      let req := macsecHeaderLen tci
      if l < req then
        .error (.len { req := req, len := l, src := .slice, layer := .macsecHeader, off := 0 })
      else .ok req

/-- MacsecHeaderSlice::expected_payload_len -/
def macsecExpectedPayloadLen (g : Mem) (o : Nat) : Option Nat :=
  let sl := (g (o + 1)) % 64
  if 0 < sl then
    if ¬ macsecUnmodified (g o) then some sl
    else if sl < 2 then none
    else some (sl - 2)
  else none

/-- MacsecHeaderSlice::next_ether_type -/
def macsecNextEtherType (g : Mem) (o : Nat) : Option Nat :=
  if ¬ macsecUnmodified (g o) then none
  else if macsecSciPresent (g o) then some (g16 g (o + 14))
  else some (g16 g (o + 6))

/-- MacsecSlice::from_slice -/
def macsecFromSlice (g : Mem) (o l : Nat) : Except PErr ExtR :=
  match macsecHeaderFromSlice g o l with
  | .error e => .error e
  | .ok hl =>
    match macsecExpectedPayloadLen g o with
    | some pl =>
      let req := hl + pl
      if l < req then
        .error (.len { req := req, len := l, src := .macsecShortLength, layer := .macsecPacket, off := 0 })
      else .ok (.macsec ⟨o, hl⟩ ⟨o + hl, pl⟩ .macsecShortLength false)
    | none => .ok (.macsec ⟨o, hl⟩ ⟨o + hl, l - hl⟩ .slice false)

/-- LaxMacsecSlice::from_slice -/
def laxMacsecFromSlice (g : Mem) (o l : Nat) : Except PErr ExtR :=
  match macsecHeaderFromSlice g o l with
  | .error e => .error e
  | .ok hl =>
    match macsecExpectedPayloadLen g o with
    | some pl =>
      let req := hl + pl
      if l < req then .ok (.macsec ⟨o, hl⟩ ⟨o + hl, l - hl⟩ .slice true)
      else .ok (.macsec ⟨o, hl⟩ ⟨o + hl, pl⟩ .macsecShortLength false)
    | none => .ok (.macsec ⟨o, hl⟩ ⟨o + hl, l - hl⟩ .slice false)

/-- ArpPacketSlice::from_slice -/
def arpFromSlice (g : Mem) (o l : Nat) : Except LenError Win :=
  if l < 8 then .error { req := 8, len := l, src := .slice, layer := .arp, off := 0 }
  else
    let minLen := 8 + g (o + 4) * 2 + g (o + 5) * 2
    if l < minLen then
      .error { req := minLen, len := l, src := .arpAddrLengths, layer := .arp, off := 0 }
    else .ok ⟨o, minLen⟩

end EpModel.Dec
