import EpModel.Model.Dec.Types
/-
  Transport layer slices: UdpSlice::{from_slice, from_slice_lax}, TcpSlice / TcpHeader::from_slice,
  Icmpv4Slice, Icmpv6Slice  (etherparse/src/transport/*).
-/
namespace EpModel.Dec
open EpModel

/-- UdpSlice::from_slice -/
def udpFromSlice (g : Mem) (o l : Nat) : Except LenError Win :=
  if l < 8 then .error { req := 8, len := l, src := .slice, layer := .udpHeader, off := 0 }
  else
    let len := g16 g (o + 4)
    if l < len then
      .error { req := len, len := l, src := .slice, layer := .udpPayload, off := 0 }
    else if len = 0 then .ok ⟨o, l⟩
    else if len < 8 then
      .error { req := 8, len := len, src := .udpHeaderLen, layer := .udpHeader, off := 0 }
    else .ok ⟨o, len⟩

/-- UdpSlice::from_slice_lax -/
def udpFromSliceLax (g : Mem) (o l : Nat) : Except LenError Win :=
  if l < 8 then .error { req := 8, len := l, src := .slice, layer := .udpHeader, off := 0 }
  else
    let len := g16 g (o + 4)
    if l < len ∨ len < 8 then .ok ⟨o, l⟩ else .ok ⟨o, len⟩

/-- TcpSlice::from_slice (and TcpHeader::from_slice): header length -/
def tcpFromSlice (g : Mem) (o l : Nat) : Except PErr Nat :=
  if l < 20 then
    .error (.len { req := 20, len := l, src := .slice, layer := .tcpHeader, off := 0 })
  else
    let hl := (g (o + 12) / 16) * 4
    if hl < 20 then .error (.tcpDataOffset (hl / 4))
    else if l < hl then
      .error (.len { req := hl, len := l, src := .slice, layer := .tcpHeader, off := 0 })
    else .ok hl

/-- Icmpv4Slice::from_slice -/
def icmp4FromSlice (g : Mem) (o l : Nat) : Except LenError Win :=
  if l < 8 then .error { req := 8, len := l, src := .slice, layer := .icmpv4, off := 0 }
  else if g o = 13 ∧ g (o + 1) = 0 ∧ l ≠ 20 then
    .error { req := 20, len := l, src := .slice, layer := .icmpv4Timestamp, off := 0 }
  else if g o = 14 ∧ g (o + 1) = 0 ∧ l ≠ 20 then
    .error { req := 20, len := l, src := .slice, layer := .icmpv4TimestampReply, off := 0 }
  else .ok ⟨o, l⟩

/-- Icmpv4Slice::header_len -/
def icmp4HeaderLen (g : Mem) (o : Nat) : Nat :=
  if (g o = 13 ∨ g o = 14) ∧ g (o + 1) = 0 then 20 else 8

/-- Icmpv6Slice::from_slice (MAX_ICMPV6_BYTE_LEN = u32::MAX) -/
def icmp6FromSlice (o l : Nat) : Except LenError Win :=
  if l < 8 then .error { req := 8, len := l, src := .slice, layer := .icmpv6, off := 0 }
  else if l > 4294967295 then
    .error { req := 4294967295, len := l, src := .slice, layer := .icmpv6, off := 0 }
  else .ok ⟨o, l⟩

end EpModel.Dec
