import EpModel.Model.Io
import EpModel.Spec.Rfc1071
/-
  PacketBuilder, as far as its I/O behaviour goes (C16): which parts `final_write_with_net`
  (packet_builder.rs) hands to `write_all`, in which order, which content error it returns behind
  them, and the size `final_size` announces to `final_write_to_slice`.

  The builder's own semantics (which values it fills in) is the subject of C10; here the filled-in
  values are only needed to print the bytes.  Checksums are computed with the RFC 1071 reference
  (`Spec.checksum`) over the pseudo header, the header with a zero checksum field and the payload —
  the equality of the crate's accumulators with RFC 1071 is C09.
  Paths covered: [Ethernet II] [single | double VLAN] (IPv4 | IPv6 | ARP) [UDP | TCP | ICMPv4 echo |
  ICMPv6 echo], built with the `PacketBuilder` convenience constructors (default header values).
-/
namespace EpModel.Io.Build
open EpModel EpModel.Io

inductive Link where
  | none
  | eth2 (src dst : Bytes)
deriving Repr

inductive VlanSel where
  | none
  | single (vid : Nat)
  | double (outer inner : Nat)
deriving Repr

inductive Net where
  | v4 (src dst : Bytes) (ttl : Nat)
  | v6 (src dst : Bytes) (hop : Nat)
  | arp (a : Codec.Arp)
deriving Repr

inductive Tp where
  | none
  | udp (sp dp : Nat)
  | tcp (sp dp seq win : Nat)
  | icmp4echo (id seq : Nat)
  | icmp6echo (id seq : Nat)
deriving Repr

structure Packet where
  link : Link
  vlan : VlanSel
  net : Net
  tp : Tp
  payload : Bytes
deriving Repr

def ck (b : Bytes) : Nat := Spec.checksum b
def ckNoZero (b : Bytes) : Nat := if ck b = 0 then 65535 else ck b

def netEtherType : Net → Nat
  | .v4 .. => 0x0800
  | .v6 .. => 0x86DD
  | .arp _ => 0x0806

/-- link header part: the ether type depends on the VLAN headers / the net header. -/
def linkParts (p : Packet) : List Bytes :=
  match p.link with
  | .none => []
  | .eth2 src dst =>
    let et := match p.vlan with
      | .single _ => 0x8100
      | .double .. => 0x88A8
      | .none => netEtherType p.net
    [Codec.Eth2.toBytes { dst := dst, src := src, et := et }]

def vlanParts (p : Packet) : List Bytes :=
  match p.vlan with
  | .none => []
  | .single vid => [Codec.Vlan.toBytes { pcp := 0, dei := false, vid := vid, et := netEtherType p.net }]
  | .double o i =>
    [Codec.Vlan.toBytes { pcp := 0, dei := false, vid := o, et := 0x8100 },
     Codec.Vlan.toBytes { pcp := 0, dei := false, vid := i, et := netEtherType p.net }]

def tpHeaderLen : Tp → Nat
  | .none => 0
  | .udp .. => 8
  | .tcp .. => 20
  | .icmp4echo .. => 8
  | .icmp6echo .. => 8

def tpProto : Tp → Option Nat
  | .none => none
  | .udp .. => some 17
  | .tcp .. => some 6
  | .icmp4echo .. => some 1
  | .icmp6echo .. => some 58

def tcpDefault (sp dp seq win ckv : Nat) : Codec.Tcp :=
  { sp := sp, dp := dp, seq := seq, ack := 0, ns := false, fin := false, syn := false, rst := false,
    psh := false, ackf := false, urg := false, ece := false, cwr := false, win := win, ck := ckv,
    urgp := 0, opts := { len := 0, buf := Codec.zeros 40 } }

/-- the transport header bytes, checksum computed over `pseudo` (source, destination of the IP
    header), `proto`/length words, the header with a zero checksum and the payload.
    `none`: the checksum cannot be computed (`Icmpv6InIpv4`). -/
def tpBytes (tp : Tp) (v6 : Bool) (src dst payload : Bytes) : Option Bytes :=
  let n := payload.length
  match tp with
  | .none => some []
  | .udp sp dp =>
    let len := (8 + n) % 65536
    let c := ckNoZero (src ++ dst ++ [0, 17] ++ enc16 len ++ enc16 sp ++ enc16 dp ++ enc16 len ++ payload)
    some (Codec.Udp.toBytes { sp := sp, dp := dp, len := len, ck := c })
  | .tcp sp dp seq win =>
    let h0 := Codec.Tcp.toBytes (tcpDefault sp dp seq win 0)
    let lenWords := if v6 then enc32 (20 + n) else enc16 (20 + n)
    let c := ck (src ++ dst ++ [0, 6] ++ lenWords ++ h0 ++ payload)
    some (Codec.Tcp.toBytes (tcpDefault sp dp seq win c))
  | .icmp4echo id seq =>
    let c := ck ([8, 0, 0, 0] ++ enc16 id ++ enc16 seq ++ payload)
    some ([8, 0] ++ enc16 c ++ enc16 id ++ enc16 seq)
  | .icmp6echo id seq =>
    if v6 then
      let c := ck (src ++ dst ++ enc32 (8 + n) ++ [0, 0, 0, 58] ++ [128, 0, 0, 0] ++ enc16 id ++
        enc16 seq ++ payload)
      some ([128, 0] ++ enc16 c ++ enc16 id ++ enc16 seq)
    else none

/-- the transport header part (no `write_all` when there is no transport header). -/
def tpParts (tp : Tp) (t : Bytes) : List Bytes :=
  match tp with
  | .none => []
  | _ => [t]

/-- `final_write_with_net` as parts + final content error (canonical text). -/
def ser (p : Packet) : Ser String :=
  let pre := linkParts p ++ vlanParts p
  let n := p.payload.length
  match p.net with
  | .arp a => { parts := pre ++ [a.toBytes] ++ [p.payload], fin := .ok () }
  | .v4 src dst ttl =>
    let value := tpHeaderLen p.tp + n
    if value > 65515 then
      { parts := pre, fin := .error s!"err(payloadlen(actual={value},max=65515,vt=Ipv4PayloadLength))" }
    else
      let h0 : CodecNet.Ipv4Header :=
        { dscp := 0, ecn := 0, totalLen := (20 + value) % 65536, identification := 0,
          dontFragment := true, moreFragments := false, fragmentOffset := 0, timeToLive := ttl,
          protocol := (tpProto p.tp).getD 255, headerChecksum := 0, source := src,
          destination := dst, options := [] }
      let h : CodecNet.Ipv4Header := { h0 with headerChecksum := h0.calcHeaderChecksum }
      match tpBytes p.tp false src dst p.payload with
      | none => { parts := pre ++ [h.toBytes], fin := .error "err(icmpv6inipv4)" }
      | some t => { parts := pre ++ [h.toBytes] ++ tpParts p.tp t ++ [p.payload],
                    fin := .ok () }
  | .v6 src dst hop =>
    let value := tpHeaderLen p.tp + n
    if value > 65535 then
      { parts := pre, fin := .error s!"err(payloadlen(actual={value},max=65535,vt=Ipv6PayloadLength))" }
    else
      let h : CodecNet.Ipv6Header :=
        { trafficClass := 0, flowLabel := 0, payloadLength := value, nextHeader := (tpProto p.tp).getD 255,
          hopLimit := hop, source := src, destination := dst }
      match tpBytes p.tp true src dst p.payload with
      | none => { parts := pre ++ [h.toBytes], fin := .error "err(icmpv6inipv4)" }
      | some t => { parts := pre ++ [h.toBytes] ++ tpParts p.tp t ++ [p.payload],
                    fin := .ok () }

def linkLen : Link → Nat
  | .none => 0
  | .eth2 .. => 14
def vlanLen : VlanSel → Nat
  | .none => 0
  | .single _ => 4
  | .double .. => 8
def netLen : Net → Nat
  | .v4 .. => 20
  | .v6 .. => 40
  | .arp a => a.headerLen

/-- `final_size` -/
def finalSize (p : Packet) : Nat :=
  linkLen p.link + vlanLen p.vlan + netLen p.net + tpHeaderLen p.tp + p.payload.length

/-- `write_to_slice` -/
def writeToSlice (p : Packet) (buf : Bytes) : Bytes × Except (BuildSliceErr String) Nat :=
  buildWriteToSlice (ser p) (finalSize p) buf

end EpModel.Io.Build
