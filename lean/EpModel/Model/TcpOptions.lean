import EpModel.Model.Basic
/-
  Model of the TCP option codec of etherparse:
    transport/tcp_options.rs            TcpOptions::try_from_elements, try_from_slice, as_slice
    transport/tcp_options_iterator.rs   TcpOptionsIterator::next
    transport/tcp_option_element.rs     TcpOptionElement
    transport/tcp_option_read_error.rs / tcp_option_write_error.rs
  (TcpHeader::set_options / set_options_raw / options_iterator only forward to these.)

  Values of the elements (u16 / u8 / u32 in Rust) are `Nat`; the range facts are the explicit
  well-formedness predicate `Elem.WF` used as hypothesis where it matters.  Core Lean only.
-/
namespace EpModel.TcpOptions
open EpModel

/-- a SACK block `(left edge, right edge)`, both u32 in the crate. -/
abbrev Pair := Nat × Nat

/-- `TcpOptionElement`. The three optional blocks of `SelectiveAcknowledgement` are the array
    `[Option<(u32,u32)>; 3]`. -/
inductive Elem where
  | noop
  | mss (v : Nat)
  | ws (v : Nat)
  | sackPerm
  | sack (first : Pair) (r0 r1 r2 : Option Pair)
  | ts (a b : Nat)
  deriving DecidableEq, Repr, Inhabited

/-- `TcpOptionWriteError`. -/
inductive WriteErr where
  | notEnoughSpace (required : Nat)
  deriving DecidableEq, Repr

/-- `TcpOptionReadError`. -/
inductive ReadErr where
  /-- `UnexpectedEndOfSlice{option_id, expected_len, actual_len}` -/
  | eos (id exp act : Nat)
  /-- `UnexpectedSize{option_id, size}` -/
  | size (id size : Nat)
  /-- `UnknownId(id)` -/
  | unknown (id : Nat)
  deriving DecidableEq, Repr

/-- item type of the iterator: `Result<TcpOptionElement, TcpOptionReadError>`. -/
abbrev Item := Except ReadErr Elem

/-! ### Encoder: `TcpOptions::try_from_elements` -/

/-- `rest.iter().fold(10, |acc, y| match y { None => acc, Some(_) => acc + 8 })` -/
def sackLen (r0 r1 r2 : Option Pair) : Nat :=
  [r0, r1, r2].foldl (fun acc y => match y with | none => acc | some _ => acc + 8) 10

/-- the per element summand of `required_len`. -/
def elemSize : Elem → Nat
  | .noop => 1
  | .mss _ => 4
  | .ws _ => 3
  | .sackPerm => 2
  | .sack _ r0 r1 r2 => sackLen r0 r1 r2
  | .ts _ _ => 10

/-- `required_len = elements.iter().fold(0, |acc, x| acc + …)` -/
def size (es : List Elem) : Nat := es.foldl (fun acc x => acc + elemSize x) 0

/-- one of the `rest` blocks: `None => {}`, `Some((a,b))` => 8 bytes. -/
def writePair : Option Pair → Bytes
  | none => []
  | some (a, b) => enc32 a ++ enc32 b

/-- the bytes the match arm of one element stores at the cursor (in order).  The length byte of
    SACK is the fold value cast to u8. -/
def writeElem : Elem → Bytes
  | .noop => [1]
  | .mss v => [2, 4] ++ enc16 v
  | .ws v => [3, 3, u8 v]
  | .sackPerm => [4, 2]
  | .sack (a, b) r0 r1 r2 =>
      [5, u8 (sackLen r0 r1 r2)] ++ enc32 a ++ enc32 b ++ writePair r0 ++ writePair r1 ++ writePair r2
  | .ts a b => [8, 10] ++ enc32 a ++ enc32 b

/-- `let t = &mut buf[len..len + n]; t[..] = data`: `none` is the slice-index panic. -/
def bufWrite (buf : Bytes) (len : Nat) (data : Bytes) : Option Bytes :=
  if len + data.length ≤ buf.length then
    some (buf.take len ++ data ++ buf.drop (len + data.length))
  else none

/-- the `for element in elements` loop over `(buf, len)`.  (The SACK arm performs its stores
    through several sub-slices `buf[len..len+10]`, `buf[len..len+8]`…; one of them is out of
    range iff the whole element is, and a partially written buffer is not observable after the
    panic, so one `bufWrite` per element has the same observable behaviour.) -/
def writeLoop : List Elem → Bytes → Nat → Option (Bytes × Nat)
  | [], buf, len => some (buf, len)
  | e :: es, buf, len =>
    match bufWrite buf len (writeElem e) with
    | none => none
    | some buf' => writeLoop es buf' (len + (writeElem e).length)

/-- result of the two constructors; `ok b` is `as_slice()` of the `TcpOptions` value. -/
inductive EncRes where
  | ok (b : Bytes)
  | err (e : WriteErr)
  | panic
  deriving DecidableEq, Repr

/-- `if (len > 0) && (0 != len & 0b11) { len = (len & !0b11) + 4 }` -/
def padLen (len : Nat) : Nat :=
  if 0 < len ∧ len % 4 ≠ 0 then len / 4 * 4 + 4 else len

/-- `TcpOptions::try_from_elements(elements)` followed by `as_slice()`. -/
def encode (es : List Elem) : EncRes :=
  let required := size es
  if 40 < required then .err (.notEnoughSpace required)
  else
    match writeLoop es (List.replicate 40 0) 0 with
    | none => .panic
    | some (buf, len) => .ok (buf.take (padLen len % 256))   -- `len: len as u8`, `buf[..len]`

/-- `TcpOptions::try_from_slice(slice)` followed by `as_slice()` (`set_options_raw`). -/
def fromSlice (s : Bytes) : EncRes :=
  if 40 < s.length then .err (.notEnoughSpace s.length)
  else
    let len := s.length % 256                                   -- `slice.len() as u8`
    let len' := len / 4 * 4 + (if len % 4 ≠ 0 then 4 else 0)    -- `((len >> 2) << 2) + if 0 != len & 0b11 {4} else {0}`
    match bufWrite (List.replicate 40 0) 0 s with               -- `buf[..slice.len()].copy_from_slice(slice)`
    | none => .panic
    | some buf => .ok (buf.take len')

/-- `TcpOptions::data_offset`: `MIN_DATA_OFFSET + (len >> 2)`. -/
def dataOffset (len : Nat) : Nat := 5 + len / 4

/-! ### Iterator: `TcpOptionsIterator::next` -/

/-- the closure `expect_specific_size(expected_size, slice)`; the slice is not empty when it is
    called.  `slice[1]` is only evaluated when `slice.len() ≥ expected_size ≥ 2`. -/
def expectSize (exp : Nat) (b : Bytes) : Except ReadErr Unit :=
  if b.length < exp then .error (.eos (bAt b 0) exp b.length)
  else if bAt b 1 ≠ exp then .error (.size (bAt b 0) (bAt b 1))
  else .ok ()

/-- block `i` (0..2) of a SACK option with length byte `len`: present iff `2 + 8 + 8*i < len`. -/
def sackBlock (b : Bytes) (len i : Nat) : Option Pair :=
  let offset := 2 + 8 + i * 8
  if offset < len then some (be32 b offset, be32 b (offset + 4)) else none

/-- the `match self.options[0]` of `next`: result and the new value of `self.options`
    before the final "move to the end on None/Err" step. -/
def nextRaw (b : Bytes) : Option Item × Bytes :=
  let k := bAt b 0
  if k = 0 then (none, b)                                           -- KIND_END
  else if k = 1 then (some (.ok .noop), b.drop 1)                   -- KIND_NOOP
  else if k = 2 then
    match expectSize 4 b with
    | .error e => (some (.error e), b)
    | .ok _ => (some (.ok (.mss (be16 b 2))), b.drop 4)
  else if k = 3 then
    match expectSize 3 b with
    | .error e => (some (.error e), b)
    | .ok _ => (some (.ok (.ws (bAt b 2))), b.drop 3)
  else if k = 4 then
    match expectSize 2 b with
    | .error e => (some (.error e), b)
    | .ok _ => (some (.ok .sackPerm), b.drop 2)
  else if k = 5 then
    if b.length < 2 then (some (.error (.eos (bAt b 0) 2 b.length)), b)
    else
      let len := bAt b 1
      if len ≠ 10 ∧ len ≠ 18 ∧ len ≠ 26 ∧ len ≠ 34 then
        (some (.error (.size (bAt b 0) len)), b)
      else if b.length < len then
        (some (.error (.eos (bAt b 0) len b.length)), b)
      else
        (some (.ok (.sack (be32 b 2, be32 b 6) (sackBlock b len 0) (sackBlock b len 1) (sackBlock b len 2))),
          b.drop len)
  else if k = 8 then
    match expectSize 10 b with
    | .error e => (some (.error e), b)
    | .ok _ => (some (.ok (.ts (be32 b 2) (be32 b 6))), b.drop 10)
  else (some (.error (.unknown (bAt b 0))), b)

/-- `TcpOptionsIterator::next`: the returned item and the new iterator state (`self.options`).
    On `None` (END) or `Some(Err(_))` the state becomes the empty slice at the end. -/
def next (b : Bytes) : Option Item × Bytes :=
  if b.length = 0 then (none, b)                                     -- `self.options.is_empty()`
  else
    match nextRaw b with
    | (none, _) => (none, [])                                        -- `&self.options[len..len]`
    | (some (.error e), _) => (some (.error e), [])
    | (some (.ok e), rest) => (some (.ok e), rest)

theorem expectSize_ok (exp : Nat) (b : Bytes) (u : Unit) (h : expectSize exp b = .ok u) :
    exp ≤ b.length ∧ bAt b 1 = exp := by
  unfold expectSize at h
  split at h
  · cases h
  · split at h
    · cases h
    · omega

theorem nextRaw_ok_shrinks (b : Bytes) (e : Elem) (s : Bytes)
    (h : nextRaw b = (some (.ok e), s)) (hb : 0 < b.length) : s.length < b.length := by
  unfold nextRaw at h
  simp only at h
  repeat' split at h
  all_goals (first | cases h | skip)
  all_goals (try (rename_i he; have := expectSize_ok _ _ _ he))
  all_goals (simp only [List.length_drop])
  all_goals omega

/-- every `Some` step strictly shrinks the remaining slice (the measure of the driving loop). -/
theorem next_shrinks (b : Bytes) (r : Item) (s : Bytes) (h : next b = (some r, s)) :
    s.length < b.length := by
  unfold next at h
  split at h
  · cases h
  · split at h
    · cases h
    · cases h; simp only [List.length_nil]; omega
    · rename_i hr; cases h; exact nextRaw_ok_shrinks b _ _ hr (by omega)

/-- drive the iterator until the first `None`: the items together with the iterator state after
    each of them, and the state after the final `None`. -/
def run (b : Bytes) : List (Item × Bytes) × Bytes :=
  match _h : next b with
  | (none, s) => ([], s)
  | (some r, s) => ((r, s) :: (run s).1, (run s).2)
termination_by b.length
decreasing_by all_goals exact next_shrinks b r s _h

/-- the items a `for x in iterator` loop sees. -/
def iterate (b : Bytes) : List Item := (run b).1.map Prod.fst

/-- iterator state after the loop. -/
def endState (b : Bytes) : Bytes := (run b).2

end EpModel.TcpOptions
