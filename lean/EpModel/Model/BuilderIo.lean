import EpModel.Model.Builder
import EpModel.Model.Io
/-
  PacketBuilder under I/O faults (C16, ops `build.failw`, `build.slicebuf`), on top of the general
  builder model EpModel/Model/Builder.lean (every builder path: `build` = `final_write_with_net`
  behind the typed steps with what was handed to the writer before an error, `size` = `final_size`,
  `writeToSlice` = `final_write_to_slice`).

  * `complete cfg payload`: every byte `write` hands to a writer that accepts everything (the
    packet, or — when `write` returns a `BuildWriteError` of its own — what it wrote before that);
  * `ser cfg payload`: `write` as a serialiser in the sense of Model/Io.lean — a sequence of
    `write_all` calls followed by the builder's own result.  No decision of
    `final_write_with_net` depends on the writer and every writer error is an early return
    (`?`), so the observable behaviour against a failing writer is determined by the concatenation
    of the parts (`Props.C16.builder_failing_writer`: the same for EVERY way of cutting `complete`
    into `write_all` calls); the driver uses the one-part cut;
  * `sliceBuffer`: content of a `cap` byte buffer (filled with `fill`) after `write_to_slice`.
-/
namespace EpModel.Builder
open EpModel EpModel.Io

/-- everything `write` hands to a writer that accepts every byte -/
def complete (cfg : Cfg) (payload : Bytes) : Bytes :=
  match build cfg payload with
  | .ok out => out
  | .error f => f.written

/-- the builder's own result behind the last write -/
def ownResult (cfg : Cfg) (payload : Bytes) : Except BuildErr Unit :=
  match build cfg payload with
  | .ok _ => .ok ()
  | .error f => .error f.err

/-- `write` as a serialiser, for a given cut of the output into `write_all` calls -/
def serOf (cfg : Cfg) (payload : Bytes) (parts : List Bytes) : Ser BuildErr :=
  { parts := parts, fin := ownResult cfg payload }

/-- `write` into a writer that accepts exactly `k` bytes and then fails -/
def writeFailing (cfg : Cfg) (payload : Bytes) (k : Nat) : Writer × Except (WErr BuildErr) Unit :=
  (serOf cfg payload [complete cfg payload]).run (Writer.failingAt k)

/-- the `cap` bytes of a buffer filled with `fill` after `write_to_slice`: untouched when the size
    check refuses the buffer, otherwise what `final_write_with_net` wrote in front. -/
def sliceBuffer (cfg : Cfg) (cap : Nat) (payload : Bytes) (fill : UInt8) : Bytes :=
  match writeToSlice cfg cap payload with
  | .space _ => List.replicate cap fill
  | _ => complete cfg payload ++ List.replicate (cap - (complete cfg payload).length) fill

end EpModel.Builder
