import EpModel.Model.Basic
/-
  Bounded integer newtypes and the bit packing of the six headers that carry bit fields
  (property C15).  Follows the Rust code as written, copy by copy:

    link/vlan_id.rs, vlan_pcp.rs, macsec_an.rs, macsec_short_len.rs,
    net/ip_dscp.rs, ip_ecn.rs, ip_frag_offset.rs, ipv6_flow_label.rs, transport/igmp/qrv.rs
        `try_new` and the separate `TryFrom::try_from` copy of each type
    link/single_vlan_header.rs (+ _slice.rs), net/ipv4_header.rs (+ _slice.rs),
    net/ipv6_header.rs (+ _slice.rs), net/ipv6_fragment_header.rs (+ _slice.rs),
    link/macsec_header.rs (+ _slice.rs),
    transport/igmp/membership_query_with_sources_header.rs + the query arm of transport/igmp_header.rs

  Conventions: machine integers are `Nat`; `x >> k` is `x / 2^k`, `x << k` on a `uN` is
  `x * 2^k % 2^N` (bits shifted out are lost, Rust does not check that), `x & (2^k-1)` is `x % 2^k`,
  `x & 2^k` is `x / 2^k % 2 * 2^k`, `x & !(2^k-1)` is `x / 2^k * 2^k`; the bitwise or `a | b` stays the
  bitwise or `a ||| b` (this is the operation that would bleed into a neighbour if an operand were
  out of range; the theorems in Props/C15 show when it does not).  `to_be_bytes` of a `u16`/`u32` is
  written out with `/ 256 % 256`.
-/
namespace EpModel.BitFields
open EpModel

/-! ## err::ValueType / err::ValueTooBigError -/

inductive ValueType where
  | VlanId | VlanPcp | MacsecAn | MacsecShortLen | IpFragmentOffset | IpDscp | IpEcn
  | Ipv6FlowLabel | IgmpQrv
deriving DecidableEq, Repr

def ValueType.name : ValueType → String
  | .VlanId => "VlanId" | .VlanPcp => "VlanPcp" | .MacsecAn => "MacsecAn"
  | .MacsecShortLen => "MacsecShortLen" | .IpFragmentOffset => "IpFragmentOffset"
  | .IpDscp => "IpDscp" | .IpEcn => "IpEcn" | .Ipv6FlowLabel => "Ipv6FlowLabel"
  | .IgmpQrv => "IgmpQrv"

structure TooBig where
  actual : Nat
  maxAllowed : Nat
  valueType : ValueType
deriving DecidableEq, Repr

/-! ## the bounded newtypes (value = the wrapped integer) -/

/-- `VlanId::try_new(value: u16)`, `MAX_U16 = 0b0000_1111_1111_1111`. -/
def VlanId.tryNew (value : Nat) : Except TooBig Nat :=
  if value ≤ 4095 then .ok value else .error ⟨value, 4095, .VlanId⟩
/-- `impl TryFrom<u16> for VlanId` (a second copy of the comparison). -/
def VlanId.tryFrom (value : Nat) : Except TooBig Nat :=
  if value ≤ 4095 then .ok value else .error ⟨value, 4095, .VlanId⟩

/-- `VlanPcp::try_new(value: u8)`, `MAX_U8 = 0b0000_0111`. -/
def VlanPcp.tryNew (value : Nat) : Except TooBig Nat :=
  if value ≤ 7 then .ok value else .error ⟨value, 7, .VlanPcp⟩
def VlanPcp.tryFrom (value : Nat) : Except TooBig Nat :=
  if value ≤ 7 then .ok value else .error ⟨value, 7, .VlanPcp⟩

/-- `IpDscp::try_new(value: u8)`, `MAX_U8 = 0b0011_1111`. -/
def IpDscp.tryNew (value : Nat) : Except TooBig Nat :=
  if value ≤ 63 then .ok value else .error ⟨value, 63, .IpDscp⟩
def IpDscp.tryFrom (value : Nat) : Except TooBig Nat :=
  if value ≤ 63 then .ok value else .error ⟨value, 63, .IpDscp⟩

/-- `IpEcn::try_new(value: u8)`, `MAX_U8 = 0b0000_0011`; the value is transmuted into the
    `#[repr(u8)]` enum whose discriminants are 0..3, `value()` is `self as u8`. -/
def IpEcn.tryNew (value : Nat) : Except TooBig Nat :=
  if value ≤ 3 then .ok value else .error ⟨value, 3, .IpEcn⟩
/-- `impl TryFrom<u8> for IpEcn` calls `try_new`. -/
def IpEcn.tryFrom (value : Nat) : Except TooBig Nat := IpEcn.tryNew value
/-- `Debug` name of the enum variant with discriminant `v` (`v ≤ 3`). -/
def IpEcn.variantName (v : Nat) : String :=
  if v = 0 then "NotEct" else if v = 1 then "Ect1" else if v = 2 then "Ect0"
  else "CongestionExperienced"

/-- `IpFragOffset::try_new(value: u16)`, `MAX_U16 = 0b0001_1111_1111_1111`. -/
def IpFragOffset.tryNew (value : Nat) : Except TooBig Nat :=
  if value ≤ 8191 then .ok value else .error ⟨value, 8191, .IpFragmentOffset⟩
def IpFragOffset.tryFrom (value : Nat) : Except TooBig Nat :=
  if value ≤ 8191 then .ok value else .error ⟨value, 8191, .IpFragmentOffset⟩
/-- `IpFragOffset::byte_offset`: `self.0 << 3` on a `u16`. -/
def IpFragOffset.byteOffset (v : Nat) : Nat := v * 8 % 65536

/-- `Ipv6FlowLabel::try_new(value: u32)`, `MAX_U32 = 0b1111_1111_1111_1111_1111`. -/
def Ipv6FlowLabel.tryNew (value : Nat) : Except TooBig Nat :=
  if value ≤ 1048575 then .ok value else .error ⟨value, 1048575, .Ipv6FlowLabel⟩
def Ipv6FlowLabel.tryFrom (value : Nat) : Except TooBig Nat :=
  if value ≤ 1048575 then .ok value else .error ⟨value, 1048575, .Ipv6FlowLabel⟩

/-- `MacsecAn::try_new(value: u8)`, `MAX_U8 = 0b0000_0011`. -/
def MacsecAn.tryNew (value : Nat) : Except TooBig Nat :=
  if value ≤ 3 then .ok value else .error ⟨value, 3, .MacsecAn⟩
def MacsecAn.tryFrom (value : Nat) : Except TooBig Nat :=
  if value ≤ 3 then .ok value else .error ⟨value, 3, .MacsecAn⟩

/-- `MacsecShortLen::try_from_u8(value: u8)`, `MAX_U8 = 0b0011_1111`. -/
def MacsecShortLen.tryFromU8 (value : Nat) : Except TooBig Nat :=
  if value ≤ 63 then .ok value else .error ⟨value, 63, .MacsecShortLen⟩
def MacsecShortLen.tryFrom (value : Nat) : Except TooBig Nat :=
  if value ≤ 63 then .ok value else .error ⟨value, 63, .MacsecShortLen⟩
/-- `MacsecShortLen::from_len(len: usize)`: lengths that do not fit become 0 ("unknown"),
    `len as u8` otherwise. -/
def MacsecShortLen.fromLen (len : Nat) : Nat :=
  if len > 63 then 0 else len % 256

/-- `igmp::Qrv::try_new(value: u8)`, `MAX_U8 = 0b0000_0111`. -/
def Qrv.tryNew (value : Nat) : Except TooBig Nat :=
  if value ≤ 7 then .ok value else .error ⟨value, 7, .IgmpQrv⟩
def Qrv.tryFrom (value : Nat) : Except TooBig Nat :=
  if value ≤ 7 then .ok value else .error ⟨value, 7, .IgmpQrv⟩

/-! ## decoding errors of the six headers -/

inductive Layer where
  | VlanHeader | Ipv4Header | Ipv6Header | Ipv6FragHeader | MacsecHeader | Igmp
deriving DecidableEq, Repr

def Layer.name : Layer → String
  | .VlanHeader => "VlanHeader" | .Ipv4Header => "Ipv4Header" | .Ipv6Header => "Ipv6Header"
  | .Ipv6FragHeader => "Ipv6FragHeader" | .MacsecHeader => "MacsecHeader" | .Igmp => "Igmp"

inductive DecErr where
  /-- `err::LenError{required_len, len, len_source: Slice, layer, layer_start_offset: 0}` -/
  | len (required len : Nat) (layer : Layer)
  | ip4UnexpectedVersion (version : Nat)
  | ip4HeaderLengthSmallerThanHeader (ihl : Nat)
  | ip6UnexpectedVersion (version : Nat)
  | macsecUnexpectedVersion
  | macsecInvalidUnmodifiedShortLen
deriving DecidableEq, Repr

/-- bytes `[o, o+1, …]` of a fixed-size array field (`self.source[i]`). -/
def arr (b : Bytes) (i : Nat) : UInt8 := b.getD i 0

/-! ## SingleVlanHeader -/

structure Vlan where
  pcp : Nat
  dei : Bool
  vid : Nat
  etherType : Nat
deriving DecidableEq, Repr

/-- `SingleVlanHeader::to_bytes`. -/
def Vlan.toBytes (h : Vlan) : Bytes :=
  let idBe0 := h.vid / 256 % 256
  let idBe1 := h.vid % 256
  [ u8 ((if h.dei then idBe0 ||| 16 else idBe0) ||| (h.pcp * 32 % 256)),
    u8 idBe1,
    u8 (h.etherType / 256 % 256),
    u8 (h.etherType % 256) ]

/-- `SingleVlanHeader::from_bytes(bytes: [u8;4])`. -/
def Vlan.fromBytes (b : Bytes) : Vlan :=
  { pcp := bAt b 0 / 32 % 8,
    dei := decide (bAt b 0 / 16 % 2 * 16 ≠ 0),
    vid := (bAt b 0 % 16) * 256 + bAt b 1,
    etherType := bAt b 2 * 256 + bAt b 3 }

/-- `SingleVlanHeaderSlice::to_header` (accessors `priority_code_point`, `drop_eligible_indicator`,
    `vlan_identifier`, `ether_type`: a second copy of the extraction). -/
def Vlan.sliceToHeader (b : Bytes) : Vlan :=
  { pcp := bAt b 0 / 32 % 8,
    dei := decide (bAt b 0 / 16 % 2 * 16 ≠ 0),
    vid := (bAt b 0 % 16) * 256 + bAt b 1,
    etherType := be16 b 2 }

/-- `SingleVlanHeader::from_slice`: header and the rest of the slice. -/
def Vlan.fromSlice (b : Bytes) : Except DecErr (Vlan × Bytes) :=
  if b.length < 4 then .error (.len 4 b.length .VlanHeader)
  else .ok (Vlan.sliceToHeader b, b.drop 4)

/-! ## Ipv4Header -/

structure Ip4 where
  dscp : Nat
  ecn : Nat
  totalLen : Nat
  ident : Nat
  df : Bool
  mf : Bool
  fragOff : Nat
  ttl : Nat
  proto : Nat
  checksum : Nat
  src : Bytes
  dst : Bytes
  options : Bytes
deriving DecidableEq, Repr

/-- `Ipv4Header::ihl`: `(self.options.len_u8() / 4) + 5` (u8). -/
def Ip4.ihl (h : Ip4) : Nat := (h.options.length % 256 / 4 + 5) % 256

/-- the two bytes "flags | fragment offset" as computed in `to_bytes`, `write_ipv4_header_internal`
    and `calc_header_checksum` (three textual copies of the same expression). -/
def Ip4.fragAndFlags (h : Ip4) : Nat × Nat :=
  let fragBe0 := h.fragOff / 256 % 256
  let fragBe1 := h.fragOff % 256
  let flags := (if h.df then 0 ||| 64 else 0)
  let flags := (if h.mf then flags ||| 32 else flags)
  (flags ||| (fragBe0 % 32), fragBe1)

/-- the fixed 20 bytes with the given checksum value. -/
def Ip4.first20 (h : Ip4) (checksum : Nat) : Bytes :=
  [ u8 ((4 * 16) ||| h.ihl),
    u8 ((h.dscp * 4 % 256) ||| h.ecn),
    u8 (h.totalLen / 256 % 256), u8 (h.totalLen % 256),
    u8 (h.ident / 256 % 256), u8 (h.ident % 256),
    u8 h.fragAndFlags.1, u8 h.fragAndFlags.2,
    u8 h.ttl, u8 h.proto,
    u8 (checksum / 256 % 256), u8 (checksum % 256),
    arr h.src 0, arr h.src 1, arr h.src 2, arr h.src 3,
    arr h.dst 0, arr h.dst 1, arr h.dst 2, arr h.dst 3 ]

/-- `Ipv4Header::to_bytes`: the 60 byte array (options buffer zero padded) cut to `header_len()`. -/
def Ip4.toBytes (h : Ip4) : Bytes := h.first20 h.checksum ++ h.options

/-- `Ipv4Header::write_raw` (`write_ipv4_header_internal` with the stored checksum): 20 bytes, then
    the options (a separate copy of the packing code). -/
def Ip4.writeRaw (h : Ip4) : Bytes := h.first20 h.checksum ++ h.options

/-- `Ipv4HeaderSlice::from_slice` + `to_header`, as used by `Ipv4Header::from_slice`. -/
def Ip4.fromSlice (b : Bytes) : Except DecErr (Ip4 × Bytes) :=
  if b.length < 20 then .error (.len 20 b.length .Ipv4Header) else
  let version := bAt b 0 / 16
  let ihl := bAt b 0 % 16
  if version ≠ 4 then .error (.ip4UnexpectedVersion version) else
  if ihl < 5 then .error (.ip4HeaderLengthSmallerThanHeader ihl) else
  let headerLength := ihl * 4
  if b.length < headerLength then .error (.len headerLength b.length .Ipv4Header) else
  .ok ({ dscp := bAt b 1 / 4,
         ecn := bAt b 1 % 4,
         totalLen := be16 b 2,
         ident := be16 b 4,
         df := decide (bAt b 6 / 64 % 2 * 64 ≠ 0),
         mf := decide (bAt b 6 / 32 % 2 * 32 ≠ 0),
         fragOff := (bAt b 6 % 32) * 256 + bAt b 7,
         ttl := bAt b 8,
         proto := bAt b 9,
         checksum := be16 b 10,
         src := sub b 12 4,
         dst := sub b 16 4,
         options := sub b 20 (headerLength - 20) }, b.drop headerLength)

/-- `Ipv4Header::read` / `read_without_version` over a reader that holds `b` (a further copy of the
    extraction code).  `none` stands for the `Io(UnexpectedEof)` error. -/
def Ip4.read (b : Bytes) : Option (Except DecErr Ip4) :=
  if b.length < 1 then none else
  let version := bAt b 0 / 16
  if 4 ≠ version then some (.error (.ip4UnexpectedVersion version)) else
  if b.length < 20 then none else
  let ihl := bAt b 0 % 16
  if ihl < 5 then some (.error (.ip4HeaderLengthSmallerThanHeader ihl)) else
  let optLen := (ihl - 5) * 4
  if b.length < 20 + optLen then none else
  some (.ok { dscp := bAt b 1 / 4,
              ecn := bAt b 1 % 4,
              totalLen := bAt b 2 * 256 + bAt b 3,
              ident := bAt b 4 * 256 + bAt b 5,
              df := decide (bAt b 6 / 64 % 2 * 64 ≠ 0),
              mf := decide (bAt b 6 / 32 % 2 * 32 ≠ 0),
              fragOff := (bAt b 6 % 32) * 256 + bAt b 7,
              ttl := bAt b 8,
              proto := bAt b 9,
              checksum := bAt b 10 * 256 + bAt b 11,
              src := sub b 12 4,
              dst := sub b 16 4,
              options := sub b 20 optLen })

/-! ## Ipv6Header -/

structure Ip6 where
  trafficClass : Nat
  flowLabel : Nat
  payloadLen : Nat
  nextHeader : Nat
  hopLimit : Nat
  src : Bytes
  dst : Bytes
deriving DecidableEq, Repr

/-- `Ipv6Header::to_bytes`. -/
def Ip6.toBytes (h : Ip6) : Bytes :=
  let flBe1 := h.flowLabel / 65536 % 256
  let flBe2 := h.flowLabel / 256 % 256
  let flBe3 := h.flowLabel % 256
  [ u8 ((6 * 16) ||| (h.trafficClass / 16)),
    u8 ((h.trafficClass * 16 % 256) ||| flBe1),
    u8 flBe2, u8 flBe3,
    u8 (h.payloadLen / 256 % 256), u8 (h.payloadLen % 256),
    u8 h.nextHeader, u8 h.hopLimit,
    arr h.src 0, arr h.src 1, arr h.src 2, arr h.src 3,
    arr h.src 4, arr h.src 5, arr h.src 6, arr h.src 7,
    arr h.src 8, arr h.src 9, arr h.src 10, arr h.src 11,
    arr h.src 12, arr h.src 13, arr h.src 14, arr h.src 15,
    arr h.dst 0, arr h.dst 1, arr h.dst 2, arr h.dst 3,
    arr h.dst 4, arr h.dst 5, arr h.dst 6, arr h.dst 7,
    arr h.dst 8, arr h.dst 9, arr h.dst 10, arr h.dst 11,
    arr h.dst 12, arr h.dst 13, arr h.dst 14, arr h.dst 15 ]

/-- `Ipv6HeaderSlice::from_slice` + `to_header`, as used by `Ipv6Header::from_slice`. -/
def Ip6.fromSlice (b : Bytes) : Except DecErr (Ip6 × Bytes) :=
  if b.length < 40 then .error (.len 40 b.length .Ipv6Header) else
  let version := bAt b 0 / 16
  if 6 ≠ version then .error (.ip6UnexpectedVersion version) else
  .ok ({ trafficClass := (bAt b 0 * 16 % 256) ||| (bAt b 1 / 16),
         flowLabel := (bAt b 1 % 16) * 65536 + bAt b 2 * 256 + bAt b 3,
         payloadLen := be16 b 4,
         nextHeader := bAt b 6,
         hopLimit := bAt b 7,
         src := sub b 8 16,
         dst := sub b 24 16 }, b.drop 40)

/-- `Ipv6Header::read` / `read_without_version` over a reader holding `b` (a second copy of the
    extraction; the version nibble is cut off before the rest is read).  `none` = `Io` error. -/
def Ip6.read (b : Bytes) : Option (Except DecErr Ip6) :=
  if b.length < 1 then none else
  let version := bAt b 0 / 16
  if 6 ≠ version then some (.error (.ip6UnexpectedVersion version)) else
  let versionRest := bAt b 0 % 16
  if b.length < 40 then none else
  some (.ok { trafficClass := (versionRest * 16 % 256) ||| (bAt b 1 / 16),
              flowLabel := (bAt b 1 % 16) * 65536 + bAt b 2 * 256 + bAt b 3,
              payloadLen := bAt b 4 * 256 + bAt b 5,
              nextHeader := bAt b 6,
              hopLimit := bAt b 7,
              src := sub b 8 16,
              dst := sub b 24 16 })

/-- `Ipv6Header::dscp` / `Ipv6HeaderSlice::dscp`: `(traffic_class >> 2) & 0b0011_1111`. -/
def Ip6.dscp (tc : Nat) : Nat := tc / 4 % 64
/-- `Ipv6Header::ecn`: `traffic_class & 0b11`. -/
def Ip6.ecn (tc : Nat) : Nat := tc % 4
/-- `Ipv6Header::set_dscp`: `(tc & 0b0000_0011) | ((dscp << 2) & 0b1111_1100)`. -/
def Ip6.setDscp (tc dscp : Nat) : Nat := (tc % 4) ||| ((dscp * 4 % 256) / 4 * 4)
/-- `Ipv6Header::set_ecn`: `(tc & 0b1111_1100) | (ecn & 0b11)`. -/
def Ip6.setEcn (tc ecn : Nat) : Nat := (tc / 4 * 4) ||| (ecn % 4)

/-! ## Ipv6FragmentHeader -/

structure Frag6 where
  nextHeader : Nat
  fragOff : Nat
  mf : Bool
  ident : Nat
deriving DecidableEq, Repr

/-- `Ipv6FragmentHeader::to_bytes`. -/
def Frag6.toBytes (h : Frag6) : Bytes :=
  let fo := (h.fragOff * 8 % 65536) ||| (if h.mf then 1 else 0)
  [ u8 h.nextHeader, 0, u8 (fo / 256 % 256), u8 (fo % 256),
    u8 (h.ident / 16777216 % 256), u8 (h.ident / 65536 % 256), u8 (h.ident / 256 % 256),
    u8 (h.ident % 256) ]

/-- `Ipv6FragmentHeaderSlice::from_slice` + `to_header`, as used by `Ipv6FragmentHeader::from_slice`. -/
def Frag6.fromSlice (b : Bytes) : Except DecErr (Frag6 × Bytes) :=
  if b.length < 8 then .error (.len 8 b.length .Ipv6FragHeader) else
  .ok ({ nextHeader := bAt b 0,
         fragOff := (bAt b 2 * 256 + bAt b 3) / 8,
         mf := decide (bAt b 3 % 2 ≠ 0),
         ident := be32 b 4 }, b.drop 8)

/-! ## MacsecHeader -/

inductive PType where
  | unmodified (etherType : Nat)
  | modified
  | encrypted
  | encryptedUnmodified
deriving DecidableEq, Repr

structure Macsec where
  ptype : PType
  es : Bool
  scb : Bool
  an : Nat
  shortLen : Nat
  pn : Nat
  sci : Option Nat
deriving DecidableEq, Repr

/-- `MacsecHeader::encrypted`. -/
def Macsec.encrypted (h : Macsec) : Bool :=
  match h.ptype with | .encrypted => true | .encryptedUnmodified => true | _ => false
/-- `MacsecHeader::userdata_changed`. -/
def Macsec.userdataChanged (h : Macsec) : Bool :=
  match h.ptype with | .encrypted => true | .modified => true | _ => false
def Macsec.isUnmodified (h : Macsec) : Bool :=
  match h.ptype with | .unmodified _ => true | _ => false

/-- `MacsecHeader::header_len`. -/
def Macsec.headerLen (h : Macsec) : Nat :=
  6 + (if h.sci.isSome then 8 else 0) + (if h.isUnmodified then 2 else 0)

/-- big endian bytes of a `u64`. -/
def enc64 (n : Nat) : Bytes :=
  [ u8 (n / 72057594037927936 % 256), u8 (n / 281474976710656 % 256), u8 (n / 1099511627776 % 256),
    u8 (n / 4294967296 % 256), u8 (n / 16777216 % 256), u8 (n / 65536 % 256), u8 (n / 256 % 256),
    u8 (n % 256) ]

/-- the TCI/AN byte of `MacsecHeader::to_bytes`. -/
def Macsec.tciAn (h : Macsec) : Nat :=
  (h.an % 4)
    ||| (if h.userdataChanged then 4 else 0)
    ||| (if h.encrypted then 8 else 0)
    ||| (if h.scb then 16 else 0)
    ||| (if h.sci.isSome then 32 else 0)
    ||| (if h.es then 64 else 0)

/-- `MacsecHeader::to_bytes`: a 16 byte array in one of two arrangements, cut to the header length. -/
def Macsec.toBytes (h : Macsec) : Bytes :=
  let pn := [u8 (h.pn / 16777216 % 256), u8 (h.pn / 65536 % 256), u8 (h.pn / 256 % 256), u8 (h.pn % 256)]
  let sciBe := enc64 (h.sci.getD 0)
  let et := match h.ptype with | .unmodified e => e | _ => 0
  let etBe := [u8 (et / 256 % 256), u8 (et % 256)]
  let full : Bytes :=
    if h.sci.isSome then
      [u8 h.tciAn, u8 (h.shortLen % 64)] ++ pn ++ sciBe ++ etBe
    else
      [u8 h.tciAn, u8 (h.shortLen % 64)] ++ pn ++ etBe ++ [0, 0, 0, 0, 0, 0, 0, 0]
  full.take h.headerLen

/-- `MacsecHeaderSlice::from_slice` + `to_header`, as used by `MacsecHeader::from_slice`.
    Second component: length of the header slice. -/
def Macsec.fromSlice (b : Bytes) : Except DecErr (Macsec × Nat) :=
  if b.length < 6 then .error (.len 6 b.length .MacsecHeader) else
  let tciAn := bAt b 0
  if 0 ≠ tciAn / 128 % 2 * 128 then .error .macsecUnexpectedVersion else
  let unmodified : Bool := decide (0 = tciAn / 4 % 4 * 4)
  if unmodified = true ∧ bAt b 1 % 64 = 1 then .error .macsecInvalidUnmodifiedShortLen else
  let sciPresent : Bool := decide (0 ≠ tciAn / 32 % 2 * 32)
  let requiredLen := 6 + (if unmodified then 2 else 0) + (if sciPresent then 8 else 0)
  if b.length < requiredLen then .error (.len requiredLen b.length .MacsecHeader) else
  let e : Bool := decide (0 ≠ tciAn / 8 % 2 * 8)
  let c : Bool := decide (0 ≠ tciAn / 4 % 2 * 4)
  let ptype : PType :=
    if e then (if c then .encrypted else .encryptedUnmodified)
    else if c then .modified
    else if sciPresent then .unmodified (bAt b 14 * 256 + bAt b 15)
    else .unmodified (bAt b 6 * 256 + bAt b 7)
  .ok ({ ptype := ptype,
         es := decide (0 ≠ tciAn / 64 % 2 * 64),
         scb := decide (0 ≠ tciAn / 16 % 2 * 16),
         an := tciAn % 4,
         shortLen := bAt b 1 % 64,
         pn := bAt b 2 * 16777216 + bAt b 3 * 65536 + bAt b 4 * 256 + bAt b 5,
         sci := if sciPresent then
                  some (bAt b 6 * 72057594037927936 + bAt b 7 * 281474976710656
                        + bAt b 8 * 1099511627776 + bAt b 9 * 4294967296 + bAt b 10 * 16777216
                        + bAt b 11 * 65536 + bAt b 12 * 256 + bAt b 13)
                else none }, requiredLen)

/-! ## igmp::MembershipQueryWithSourcesHeader (IGMPv3 query) -/

structure Query where
  maxRespCode : Nat
  group : Bytes
  rawByte8 : Nat
  qqic : Nat
  numSources : Nat
deriving DecidableEq, Repr

/-- `flags()`: `(raw_byte_8 & 0b1111_0000) >> 4`. -/
def Query.flags (raw : Nat) : Nat := raw / 16 * 16 / 16
/-- `set_flags(value: u8)`: `(raw & !0b1111_0000) | ((value << 4) & 0b1111_0000)`. -/
def Query.setFlags (raw value : Nat) : Nat := (raw % 16) ||| ((value * 16 % 256) / 16 * 16)
/-- `s_flag()`: `0 != raw & 0b0000_1000`. -/
def Query.sFlag (raw : Nat) : Bool := decide (0 ≠ raw / 8 % 2 * 8)
/-- `set_s_flag(value)`: `raw |= 0b1000` or `raw &= !0b1000`. -/
def Query.setSFlag (raw : Nat) (value : Bool) : Nat :=
  if value then raw ||| 8 else raw / 16 * 16 + raw % 8
/-- `qrv()`: `raw & 0b0000_0111`. -/
def Query.qrv (raw : Nat) : Nat := raw % 8
/-- `set_qrv(value: Qrv)`: `(raw & !0b111) | (value & 0b111)`. -/
def Query.setQrv (raw value : Nat) : Nat := (raw / 8 * 8) ||| (value % 8)

/-- `IgmpHeader::to_bytes`, arm `MembershipQueryWithSources` (type byte 0x11). -/
def Query.toBytes (h : Query) (checksum : Nat) : Bytes :=
  [ 17, u8 h.maxRespCode, u8 (checksum / 256 % 256), u8 (checksum % 256),
    arr h.group 0, arr h.group 1, arr h.group 2, arr h.group 3,
    u8 h.rawByte8, u8 h.qqic, u8 (h.numSources / 256 % 256), u8 (h.numSources % 256) ]

/-- result of `IgmpHeader::from_slice` restricted to what concerns the IGMPv3 query. -/
inductive IgmpDec where
  | query (h : Query) (checksum : Nat) (rest : Bytes)
  | other     -- some other IgmpType (type byte ≠ 0x11, or an 8 byte IGMPv1/v2 query)
deriving DecidableEq, Repr

/-- `IgmpHeader::from_slice`, the arms that concern the query with sources. -/
def Query.fromSlice (b : Bytes) : Except DecErr IgmpDec :=
  if b.length < 8 then .error (.len 8 b.length .Igmp) else
  if bAt b 0 = 17 then
    if 8 = b.length then .ok .other
    else if b.length ≥ 12 then
      .ok (.query { maxRespCode := bAt b 1,
                    group := [arr b 4, arr b 5, arr b 6, arr b 7],
                    rawByte8 := bAt b 8,
                    qqic := bAt b 9,
                    numSources := bAt b 10 * 256 + bAt b 11 } (bAt b 2 * 256 + bAt b 3) (b.drop 12))
    else .error (.len 12 b.length .Igmp)
  else .ok .other

end EpModel.BitFields
