import EpModel.Model.Basic
/-
  Model of etherparse/src/checksum.rs  (u64_16bit_word, u32_16bit_word, Sum16BitWords on a 64 bit
  little endian target).  Accumulators are natural numbers; `overflowing_add` + carry is written
  out with the explicit modulus, so the wrap-around the property is about is part of the model.
-/
namespace EpModel.Checksum
open EpModel

/-- little endian (native on the modelled target) value of up to 8 bytes. -/
def leVal : Bytes → Nat
  | [] => 0
  | b :: rest => b.toNat + 256 * leVal rest

/-- `start.overflowing_add(v)` followed by `sum + carry` for a `w` bit accumulator. -/
def addCarry (w : Nat) (start v : Nat) : Nat :=
  let t := start + v
  if t < 2 ^ w then t else t - 2 ^ w + 1

def add8_64 (s : Nat) (v : Bytes) : Nat := addCarry 64 s (leVal v)
def add4_64 (s : Nat) (v : Bytes) : Nat := addCarry 64 s (leVal v)
def add2_64 (s : Nat) (v : Bytes) : Nat := addCarry 64 s (leVal v)
def add4_32 (s : Nat) (v : Bytes) : Nat := addCarry 32 s (leVal v)
def add2_32 (s : Nat) (v : Bytes) : Nat := addCarry 32 s (leVal v)

/-- the part of `u64_16bit_word::add_slice` behind the 8-byte loop; `r` is the slice from `end_64`
    on (so `end_64 = 0` here): 4 bytes if present, then 2 bytes if present, then the last byte of
    an odd-length slice padded with a zero byte. -/
def tail64 (s : Nat) (r : Bytes) : Nat :=
  let s1 := if 4 ≤ r.length then add4_64 s (r.take 4) else s
  let end32 := if 4 ≤ r.length then 4 else 0
  let s2 := if 2 ≤ r.length - end32 then add2_64 s1 (sub r end32 2) else s1
  if r.length % 2 ≠ 0 then add2_64 s2 [r.getD (r.length - 1) 0, 0] else s2

/-- `u64_16bit_word::add_slice`: 8 byte steps while 8 bytes are left, then `tail64`. -/
def addSlice64 (s : Nat) (b : Bytes) : Nat :=
  if 8 ≤ b.length then addSlice64 (add8_64 s (b.take 8)) (b.drop 8) else tail64 s b
termination_by b.length
decreasing_by simp; omega

/-- the part of `u32_16bit_word::add_slice` behind the 4-byte loop. -/
def tail32 (s : Nat) (r : Bytes) : Nat :=
  let s1 := if 2 ≤ r.length then add2_32 s (r.take 2) else s
  if r.length % 2 ≠ 0 then add2_32 s1 [r.getD (r.length - 1) 0, 0] else s1

/-- `u32_16bit_word::add_slice`: 4 byte steps, then `tail32`. -/
def addSlice32 (s : Nat) (b : Bytes) : Nat :=
  if 4 ≤ b.length then addSlice32 (add4_32 s (b.take 4)) (b.drop 4) else tail32 s b
termination_by b.length
decreasing_by simp; omega

/-- `u64_16bit_word::ones_complement`: three folding stages, `as u16`, bitwise not. -/
def onesComplement64 (sum : Nat) : Nat :=
  let first := (sum / 2 ^ 48) % 65536 + (sum / 2 ^ 32) % 65536 + (sum / 2 ^ 16) % 65536 + sum % 65536
  let second := (first / 65536) % 65536 + first % 65536
  let v := ((second / 65536) % 65536 + second % 65536) % 65536
  65535 - v

/-- `u32_16bit_word::ones_complement`. -/
def onesComplement32 (sum : Nat) : Nat :=
  let first := (sum / 65536) % 65536 + sum % 65536
  let v := ((first / 65536) % 65536 + first % 65536) % 65536
  65535 - v

def noZero (v : Nat) : Nat := if v = 0 then 65535 else v

def onesComplementNoZero64 (sum : Nat) : Nat := noZero (onesComplement64 sum)
def onesComplementNoZero32 (sum : Nat) : Nat := noZero (onesComplement32 sum)

/-- `u16::to_be` on the little endian target = byte swap. -/
def swap16 (v : Nat) : Nat := (v % 256) * 256 + (v / 256) % 256

end EpModel.Checksum
