/-
  Basic byte-string utilities shared by the model, the spec and the driver.
  Core Lean only (no Mathlib / Batteries imports) so that the driver links as a native executable.
-/
namespace EpModel

abbrev Bytes := List UInt8

/-- value of byte `i` of `b` as a natural number; 0 when out of range (every use in the model is
    guarded by an explicit length check, the totalisation is never relied on by a theorem). -/
def bAt (b : Bytes) (i : Nat) : Nat := (b.getD i 0).toNat

theorem bAt_lt (b : Bytes) (i : Nat) : bAt b i < 256 := UInt8.toNat_lt _

/-- big endian 16 bit value at offset `i`. -/
def be16 (b : Bytes) (i : Nat) : Nat := bAt b i * 256 + bAt b (i + 1)
/-- big endian 32 bit value at offset `i`. -/
def be32 (b : Bytes) (i : Nat) : Nat :=
  bAt b i * 16777216 + bAt b (i + 1) * 65536 + bAt b (i + 2) * 256 + bAt b (i + 3)

theorem be16_lt (b : Bytes) (i : Nat) : be16 b i < 65536 := by
  unfold be16; have := bAt_lt b i; have := bAt_lt b (i+1); omega

theorem be32_lt (b : Bytes) (i : Nat) : be32 b i < 4294967296 := by
  unfold be32
  have := bAt_lt b i; have := bAt_lt b (i+1); have := bAt_lt b (i+2); have := bAt_lt b (i+3); omega

/-- a byte from a natural number (the `as u8` cast: truncation is explicit). -/
def u8 (n : Nat) : UInt8 := UInt8.ofNat (n % 256)

@[simp] theorem u8_toNat (n : Nat) : (u8 n).toNat = n % 256 := by
  unfold u8; simp

/-- big endian encoding of a 16 bit value (`to_be_bytes` after an `as u16` cast). -/
def enc16 (n : Nat) : Bytes := [u8 (n / 256), u8 n]
/-- big endian encoding of a 32 bit value. -/
def enc32 (n : Nat) : Bytes := [u8 (n / 16777216), u8 (n / 65536), u8 (n / 256), u8 n]

@[simp] theorem enc16_length (n : Nat) : (enc16 n).length = 2 := rfl
@[simp] theorem enc32_length (n : Nat) : (enc32 n).length = 4 := rfl

/-- sub-slice `[o, o+l)`. Callers check `o + l ≤ b.length` first. -/
def sub (b : Bytes) (o l : Nat) : Bytes := (b.drop o).take l

theorem sub_length (b : Bytes) (o l : Nat) (h : o + l ≤ b.length) : (sub b o l).length = l := by
  unfold sub; simp; omega

/-! ### Hex encoding used by the line protocol -/

def hexDigit (n : Nat) : Char :=
  if n < 10 then Char.ofNat (48 + n) else Char.ofNat (87 + n)

def hexOfBytes (b : Bytes) : String :=
  if b.isEmpty then "-" else
  String.ofList (b.foldr (fun x acc => hexDigit (x.toNat / 16) :: hexDigit (x.toNat % 16) :: acc) [])

def hexVal (c : Char) : Option Nat :=
  if '0' ≤ c ∧ c ≤ '9' then some (c.toNat - 48)
  else if 'a' ≤ c ∧ c ≤ 'f' then some (c.toNat - 87)
  else if 'A' ≤ c ∧ c ≤ 'F' then some (c.toNat - 55)
  else none

def bytesOfHexChars : List Char → Option Bytes
  | [] => some []
  | [_] => none
  | a :: b :: rest =>
    match hexVal a, hexVal b, bytesOfHexChars rest with
    | some x, some y, some r => some (UInt8.ofNat (x * 16 + y) :: r)
    | _, _, _ => none

def bytesOfHex (s : String) : Option Bytes :=
  if s == "-" then some [] else bytesOfHexChars s.toList

end EpModel
