import EpModel.Model.Builder
import EpModel.Model.Codec.TpIgmp
/-
  `IgmpHeader::calc_checksum` (transport/igmp_header.rs) as the chain of `Sum16BitWords` calls it makes; printed by
  the `ck.w.igmp` operation of the driver (so tied to the code by C09's correspondence) and proved equal to the
  RFC form `wireIgmp` in Props/C09Wire.lean.
-/
namespace EpModel.Checksum
open EpModel EpModel.Codec EpModel.Builder

/-- the `add_2bytes` / `add_4bytes` calls of `IgmpHeader::calc_checksum`, per variant -/
def igmpParts : IgmpType → List Bytes
  | .membershipQuery m g => [[0x11, u8 m], g]
  | .membershipQueryWithSources m g r q n => [[0x11, u8 m], g, [u8 r, u8 q], enc16 n]
  | .membershipReportV1 g => [[0x12, 0], g]
  | .membershipReportV2 g => [[0x16, 0], g]
  | .membershipReportV3 f n => [[0x22, 0], f, enc16 n]
  | .leaveGroup g => [[0x17, 0], g]
  | .unknown t r raw => [[u8 t, u8 r], raw]

/-- `IgmpHeader::calc_checksum(payload)` -/
def igmpChecksum (t : IgmpType) (payload : Bytes) : Nat :=
  swap16 (onesComplement64 (addSlice64 (addParts 0 (igmpParts t)) payload))

end EpModel.Checksum

