import EpModel.Model.Io
/-
  Reader-side skipping of IPv6 extension headers (C16, ops `io.skip.*`), following
  etherparse/src/net/ipv6_header.rs as written:

    Ipv6Header::is_skippable_header_extension
    Ipv6Header::skip_header_extension        (Read + Seek)
    Ipv6Header::skip_all_header_extensions   (Read + Seek)

  The reader is the failing reader of Model/Io.lean (`data`, `pos`, `failAt`) with the `Seek` of
  `std::io::Cursor`: `SeekFrom::Current(n)` just moves the position, also past the end of the data,
  and reports no error (every offset the code passes is positive: `rest_length - 1 ≥ 5`).  A
  `read_exact` at or behind the point where the reader fails / the data ends returns the injected
  error / `UnexpectedEof` (`Reader.readExact`); this is the only way the code notices that the
  skipped header was not completely there, hence the final one byte read.
-/
namespace EpModel.Io.Skip
open EpModel EpModel.Io

/-- `seek(SeekFrom::Current(n))` with `n ≥ 0` on a cursor-like reader: never an error, the position
    may end up behind the data. -/
def seekCur (r : Reader) (n : Nat) : Reader := { data := r.data, pos := r.pos + n, failAt := r.failAt }

/-- the three arms of the `match next_header` in `skip_header_extension` -/
inductive Kind where
  /-- `IPV6_FRAG`: one byte read, `rest_length = 7` -/
  | frag
  /-- `AUTH`: two bytes read, `rest_length = buf[1] * 4 + 6` -/
  | auth
  /-- `IPV6_HOP_BY_HOP | IPV6_ROUTE | IPV6_DEST_OPTIONS | MOBILITY | HIP | SHIM6`: two bytes read,
      `rest_length = buf[1] * 8 + 6` -/
  | generic
deriving DecidableEq, Repr

/-- which arm an ip number selects (`none`: the `_ => return Ok(next_header)` arm) -/
def kindOf (nh : Nat) : Option Kind :=
  if nh = 44 then some .frag
  else if nh = 51 then some .auth
  else if nh = 0 ∨ nh = 43 ∨ nh = 60 ∨ nh = 135 ∨ nh = 139 ∨ nh = 140 then some .generic
  else none

/-- `Ipv6Header::is_skippable_header_extension` (a separate `matches!` in the code) -/
def isSkippable (nh : Nat) : Prop :=
  nh = 0 ∨ nh = 43 ∨ nh = 44 ∨ nh = 51 ∨ nh = 60 ∨ nh = 135 ∨ nh = 139 ∨ nh = 140
instance (nh : Nat) : Decidable (isSkippable nh) := by unfold isSkippable; infer_instance

/-- size of the first `read_exact` of an arm -/
def Kind.firstRead : Kind → Nat
  | .frag => 1
  | _ => 2

/-- `rest_length` of an arm, from the bytes of the first read -/
def Kind.restLength (k : Kind) (buf : Bytes) : Nat :=
  match k with
  | .frag => 7
  | .auth => bAt buf 1 * 4 + 6
  | .generic => bAt buf 1 * 8 + 6

/-- `Ipv6Header::skip_header_extension(reader, next_header)`: first read (`?`), seek to one byte
    before the end of the header, one byte read (`?`), `Ok(IpNumber(buf[0]))`. -/
def skipHeaderExtension (r : Reader) (nh : Nat) : Reader × Except IoError Nat :=
  match kindOf nh with
  | none => (r, .ok nh)
  | some kind =>
    match r.readExact kind.firstRead with
    | (r1, .error e) => (r1, .error e)
    | (r1, .ok buf) =>
      match (seekCur r1 (kind.restLength buf - 1)).readExact 1 with
      | (r3, .error e) => (r3, .error e)
      | (r3, .ok _) => (r3, .ok (bAt buf 0))

/-- a successful skip of a skippable header moves the reader forward and leaves it inside the
    bytes the reader can hand out (the last byte of the header was really read). -/
theorem skip_progress (r : Reader) (nh : Nat) (hs : isSkippable nh) (r' : Reader) (next : Nat)
    (h : skipHeaderExtension r nh = (r', .ok next)) :
    r'.limit = r.limit ∧ r.pos < r'.pos ∧ r'.pos ≤ r'.limit := by
  unfold skipHeaderExtension at h
  cases hk : kindOf nh with
  | none =>
    unfold kindOf isSkippable at *
    repeat (split at hk <;> try contradiction)
    omega
  | some kind =>
    rw [hk] at h
    simp only at h
    have hf : kind.firstRead ≠ 0 := by cases kind <;> simp [Kind.firstRead]
    by_cases h1 : r.pos + kind.firstRead ≤ r.limit
    · simp only [Reader.readExact, hf, h1, if_true, if_false] at h
      generalize hb : sub r.data r.pos kind.firstRead = buf at h
      generalize hn : kind.restLength buf - 1 = n at h
      by_cases h2 : r.pos + kind.firstRead + n + 1 ≤ r.limit
      · have hl : (seekCur { data := r.data, pos := r.pos + kind.firstRead, failAt := r.failAt } n).limit
            = r.limit := rfl
        have hp : (seekCur { data := r.data, pos := r.pos + kind.firstRead, failAt := r.failAt } n).pos
            = r.pos + kind.firstRead + n := rfl
        have h2' : (seekCur { data := r.data, pos := r.pos + kind.firstRead, failAt := r.failAt } n).pos + 1
            ≤ (seekCur { data := r.data, pos := r.pos + kind.firstRead, failAt := r.failAt } n).limit := by
          rw [hl, hp]; exact h2
        simp only [Nat.succ_ne_zero, h2', if_true, if_false] at h
        simp only [Prod.mk.injEq, Except.ok.injEq] at h
        obtain ⟨hr, _⟩ := h
        subst hr
        refine ⟨rfl, ?_, ?_⟩
        · show r.pos < r.pos + kind.firstRead + n + 1
          omega
        · show r.pos + kind.firstRead + n + 1 ≤ r.limit
          exact h2
      · have hl : (seekCur { data := r.data, pos := r.pos + kind.firstRead, failAt := r.failAt } n).limit
            = r.limit := rfl
        have hp : (seekCur { data := r.data, pos := r.pos + kind.firstRead, failAt := r.failAt } n).pos
            = r.pos + kind.firstRead + n := rfl
        have h2' : ¬ (seekCur { data := r.data, pos := r.pos + kind.firstRead, failAt := r.failAt } n).pos + 1
            ≤ (seekCur { data := r.data, pos := r.pos + kind.firstRead, failAt := r.failAt } n).limit := by
          rw [hl, hp]; exact h2
        simp only [Nat.succ_ne_zero, h2', if_false] at h
        simp at h
    · simp only [Reader.readExact, hf, h1, if_false] at h
      simp at h

/-- `Ipv6Header::skip_all_header_extensions(reader, next_header)`: the `loop`.  It terminates
    because every successful skip moves the reader forward inside what the reader can hand out. -/
def skipAll (r : Reader) (nh : Nat) : Reader × Except IoError Nat :=
  if _hs : isSkippable nh then
    match _hr : skipHeaderExtension r nh with
    | (r', .error e) => (r', .error e)
    | (r', .ok next) => skipAll r' next
  else (r, .ok nh)
termination_by r.limit - r.pos
decreasing_by
  have := skip_progress r nh _hs r' next _hr
  omega

end EpModel.Io.Skip
