import EpModel.Model.Io
/-
  Reader-side skipping of IPv6 extension headers (C16, ops `io.skip.*`), following
  etherparse/src/net/ipv6_header.rs as written:

    Ipv6Header::is_skippable_header_extension
    Ipv6Header::skip_header_extension        (Read + Seek)
    Ipv6Header::skip_all_header_extensions   (Read + Seek)

  The reader is the failing reader of Model/Io.lean (`data`, `pos`, `failAt`) with the `Seek` of
  `std::io::Cursor`: `SeekFrom::Current(n)` just moves the position, also past the end of the data,
  and reports no error (every offset the code passes is positive: `rest_length - 1 ≥ 5`).  A
  `read_exact` at or behind the point where the reader fails / the data ends returns the injected
  error / `UnexpectedEof` (`Reader.readExact`); this is the only way the code notices that the
  skipped header was not completely there, hence the final one byte read.
-/
namespace EpModel.Io.Skip
open EpModel EpModel.Io

/-- `seek(SeekFrom::Current(n))` with `n ≥ 0` on a cursor-like reader: never an error, the position
    may end up behind the data. -/
def seekCur (r : Reader) (n : Nat) : Reader := { data := r.data, pos := r.pos + n, failAt := r.failAt }

/-- the three arms of the `match next_header` in `skip_header_extension` -/
inductive Kind where
  /-- `IPV6_FRAG`: one byte read, `rest_length = 7` -/
  | frag
  /-- `AUTH`: two bytes read, `rest_length = buf[1] * 4 + 6` -/
  | auth
  /-- `IPV6_HOP_BY_HOP | IPV6_ROUTE | IPV6_DEST_OPTIONS | MOBILITY | HIP | SHIM6`: two bytes read,
      `rest_length = buf[1] * 8 + 6` -/
  | generic
deriving DecidableEq, Repr

/-- which arm an ip number selects (`none`: the `_ => return Ok(next_header)` arm) -/
def kindOf (nh : Nat) : Option Kind :=
  if nh = 44 then some .frag
  else if nh = 51 then some .auth
  else if nh = 0 ∨ nh = 43 ∨ nh = 60 ∨ nh = 135 ∨ nh = 139 ∨ nh = 140 then some .generic
  else none

/-- `Ipv6Header::is_skippable_header_extension` (a separate `matches!` in the code) -/
def isSkippable (nh : Nat) : Prop :=
  nh = 0 ∨ nh = 43 ∨ nh = 44 ∨ nh = 51 ∨ nh = 60 ∨ nh = 135 ∨ nh = 139 ∨ nh = 140
instance (nh : Nat) : Decidable (isSkippable nh) := by unfold isSkippable; infer_instance

/-- size of the first `read_exact` of an arm -/
def Kind.firstRead : Kind → Nat
  | .frag => 1
  | _ => 2

/-- `rest_length` of an arm, from the bytes of the first read -/
def Kind.restLength (k : Kind) (buf : Bytes) : Nat :=
  match k with
  | .frag => 7
  | .auth => bAt buf 1 * 4 + 6
  | .generic => bAt buf 1 * 8 + 6

/-- `Ipv6Header::skip_header_extension(reader, next_header)`: first read (`?`), seek to one byte
    before the end of the header, one byte read (`?`), `Ok(IpNumber(buf[0]))`. -/
def skipHeaderExtension (r : Reader) (nh : Nat) : Reader × Except IoError Nat :=
  match kindOf nh with
  | none => (r, .ok nh)
  | some kind =>
    match r.readExact kind.firstRead with
    | (r1, .error e) => (r1, .error e)
    | (r1, .ok buf) =>
      match (seekCur r1 (kind.restLength buf - 1)).readExact 1 with
      | (r3, .error e) => (r3, .error e)
      | (r3, .ok _) => (r3, .ok (bAt buf 0))

/-- a successful skip of a skippable header moves the reader forward and leaves it inside the
    bytes the reader can hand out (the last byte of the header was really read). -/
theorem skip_progress (r : Reader) (nh : Nat) (hs : isSkippable nh) (r' : Reader) (next : Nat)
    (h : skipHeaderExtension r nh = (r', .ok next)) :
    r'.limit = r.limit ∧ r.pos < r'.pos ∧ r'.pos ≤ r'.limit := by
  unfold skipHeaderExtension at h
  cases hk : kindOf nh with
  | none =>
    unfold kindOf isSkippable at *
    repeat (split at hk <;> try contradiction)
    omega
  | some kind =>
    rw [hk] at h
    simp only at h
    have hf : kind.firstRead ≠ 0 := by cases kind <;> simp [Kind.firstRead]
    by_cases h1 : r.pos + kind.firstRead ≤ r.limit
    · simp only [Reader.readExact, hf, h1, if_true, if_false] at h
      generalize hb : sub r.data r.pos kind.firstRead = buf at h
      generalize hn : kind.restLength buf - 1 = n at h
      by_cases h2 : r.pos + kind.firstRead + n + 1 ≤ r.limit
      · have hl : (seekCur { data := r.data, pos := r.pos + kind.firstRead, failAt := r.failAt } n).limit
            = r.limit := rfl
        have hp : (seekCur { data := r.data, pos := r.pos + kind.firstRead, failAt := r.failAt } n).pos
            = r.pos + kind.firstRead + n := rfl
        have h2' : (seekCur { data := r.data, pos := r.pos + kind.firstRead, failAt := r.failAt } n).pos + 1
            ≤ (seekCur { data := r.data, pos := r.pos + kind.firstRead, failAt := r.failAt } n).limit := by
          rw [hl, hp]; exact h2
        simp only [Nat.succ_ne_zero, h2', if_true, if_false] at h
        simp only [Prod.mk.injEq, Except.ok.injEq] at h
        obtain ⟨hr, _⟩ := h
        subst hr
        refine ⟨rfl, ?_, ?_⟩
        · show r.pos < r.pos + kind.firstRead + n + 1
          omega
        · show r.pos + kind.firstRead + n + 1 ≤ r.limit
          exact h2
      · have hl : (seekCur { data := r.data, pos := r.pos + kind.firstRead, failAt := r.failAt } n).limit
            = r.limit := rfl
        have hp : (seekCur { data := r.data, pos := r.pos + kind.firstRead, failAt := r.failAt } n).pos
            = r.pos + kind.firstRead + n := rfl
        have h2' : ¬ (seekCur { data := r.data, pos := r.pos + kind.firstRead, failAt := r.failAt } n).pos + 1
            ≤ (seekCur { data := r.data, pos := r.pos + kind.firstRead, failAt := r.failAt } n).limit := by
          rw [hl, hp]; exact h2
        simp only [Nat.succ_ne_zero, h2', if_false] at h
        simp at h
    · simp only [Reader.readExact, hf, h1, if_false] at h
      simp at h

/-- `Ipv6Header::skip_all_header_extensions(reader, next_header)`: the `loop`.  It terminates
    because every successful skip moves the reader forward inside what the reader can hand out. -/
def skipAll (r : Reader) (nh : Nat) : Reader × Except IoError Nat :=
  if _hs : isSkippable nh then
    match _hr : skipHeaderExtension r nh with
    | (r', .error e) => (r', .error e)
    | (r', .ok next) => skipAll r' next
  else (r, .ok nh)
termination_by r.limit - r.pos
decreasing_by
  have := skip_progress r nh _hs r' next _hr
  omega

/-! ## a reader whose `seek` can fail

  `Seek::seek` returns `io::Result<u64>`, and both functions propagate its error with `?`
  (`reader.seek(std::io::SeekFrom::Current(rest_length - 1))?;`).  The reader below counts its
  `seek` calls; the call with index `seekFail` (0-based, over the whole run) returns an error and
  leaves the position where it was, every other call behaves like `seekCur`.  The functions are
  written again call by call (read, seek, read), now with an error type that tells the two kinds
  of failure apart; `seekFail = none` is provably the old function (`Props/C16.lean`). -/

/-- errors of the skip functions over a reader whose seek can fail -/
inductive SkipError where
  /-- an error of a `read_exact` (`?` behind the first or the last read) -/
  | io (e : IoError)
  /-- the injected error of the failing `seek` (`?` behind the seek) -/
  | seek
deriving DecidableEq, Repr

def SkipError.render : SkipError → String
  | .io e => e.render
  | .seek => "err(seek)"

/-- the failing reader with a `Seek` that counts its calls (`seeks`) and fails at the call with
    index `seekFail`. -/
structure SReader where
  rd : Reader
  /-- number of `seek` calls made so far -/
  seeks : Nat
  /-- the 0-based index of the `seek` call that fails (`none`: no call fails) -/
  seekFail : Option Nat
deriving DecidableEq, Repr

/-- `seek(SeekFrom::Current(n))`, `n ≥ 0`: the call is counted; the failing call reports the error
    and does not move; any other call moves like `seekCur`. -/
def SReader.seekCur (s : SReader) (n : Nat) : SReader × Except SkipError Unit :=
  if s.seekFail = some s.seeks then
    ({ rd := s.rd, seeks := s.seeks + 1, seekFail := s.seekFail }, .error .seek)
  else ({ rd := Skip.seekCur s.rd n, seeks := s.seeks + 1, seekFail := s.seekFail }, .ok ())

/-- a `read_exact(..)?` on the inner reader -/
def SReader.readExact (s : SReader) (n : Nat) : SReader × Except SkipError Bytes :=
  match s.rd.readExact n with
  | (r, .error e) => ({ rd := r, seeks := s.seeks, seekFail := s.seekFail }, .error (.io e))
  | (r, .ok b) => ({ rd := r, seeks := s.seeks, seekFail := s.seekFail }, .ok b)

/-- `Ipv6Header::skip_header_extension(reader, next_header)` call by call: first read (`?`),
    seek (`?`), one byte read (`?`), `Ok(IpNumber(buf[0]))`. -/
def skipExtSf (s : SReader) (nh : Nat) : SReader × Except SkipError Nat :=
  match kindOf nh with
  | none => (s, .ok nh)
  | some kind =>
    match s.readExact kind.firstRead with
    | (s1, .error e) => (s1, .error e)
    | (s1, .ok buf) =>
      match s1.seekCur (kind.restLength buf - 1) with
      | (s2, .error e) => (s2, .error e)
      | (s2, .ok ()) =>
        match s2.readExact 1 with
        | (s3, .error e) => (s3, .error e)
        | (s3, .ok _) => (s3, .ok (bAt buf 0))

/-- forgetting the seek counter: an `Ok` of the new function is an `Ok` of the old one on the
    inner reader (used for the termination of the loop). -/
theorem skipExtSf_ok (s : SReader) (nh : Nat) (s' : SReader) (next : Nat)
    (h : skipExtSf s nh = (s', .ok next)) :
    skipHeaderExtension s.rd nh = (s'.rd, .ok next) := by
  unfold skipExtSf at h
  unfold skipHeaderExtension
  cases hk : kindOf nh with
  | none =>
    rw [hk] at h
    simp only [Prod.mk.injEq, Except.ok.injEq] at h
    obtain ⟨h1, h2⟩ := h
    subst h1; subst h2; rfl
  | some kind =>
    rw [hk] at h
    simp only [SReader.readExact, SReader.seekCur] at h ⊢
    cases h1 : s.rd.readExact kind.firstRead with
    | mk r1 res1 =>
      rw [h1] at h
      cases res1 with
      | error e => simp at h
      | ok buf =>
        simp only at h ⊢
        by_cases hf : s.seekFail = some s.seeks
        · simp [hf] at h
        · simp only [hf, if_false] at h
          cases h3 : (seekCur r1 (kind.restLength buf - 1)).readExact 1 with
          | mk r3 res3 =>
            rw [h3] at h
            cases res3 with
            | error e => simp at h
            | ok b =>
              simp only [Prod.mk.injEq, Except.ok.injEq] at h
              obtain ⟨h4, h5⟩ := h
              subst h4; subst h5; rfl

/-- `Ipv6Header::skip_all_header_extensions(reader, next_header)`: the `loop`, every error of
    `skip_header_extension` leaves it (`?`). -/
def skipAllSf (s : SReader) (nh : Nat) : SReader × Except SkipError Nat :=
  if _hs : isSkippable nh then
    match _hr : skipExtSf s nh with
    | (s', .error e) => (s', .error e)
    | (s', .ok next) => skipAllSf s' next
  else (s, .ok nh)
termination_by s.rd.limit - s.rd.pos
decreasing_by
  have := skip_progress s.rd nh _hs s'.rd next (skipExtSf_ok s nh s' next _hr)
  omega

end EpModel.Io.Skip
