import EpModel.Model.ViewBasic
/-
  Model of the Ethernet/IPv4 view of ARP, following the Rust code:
    net/arp_packet_slice.rs     ArpPacketSlice::from_slice + accessors, to_packet
    net/arp_packet.rs           ArpPacket::{from_slice, try_eth_ipv4}
    net/arp_eth_ipv4_packet.rs  ArpEthIpv4Packet (TryFrom<ArpPacket> = try_eth_ipv4)
-/
namespace EpModel.View
open EpModel

/-- `ArpPacketSlice::from_slice`: 8 fixed bytes, then `8 + 2*hw_addr_size + 2*proto_addr_size`;
    the accepted slice is cut to exactly that length.  (The second error carries
    `len_source = ArpAddrLengths` together with `len = slice.len()`; that pairing is the known C07
    finding F9 and is mirrored here as written.) -/
def arpSliceFromSlice (b : Bytes) : Except LenError Bytes :=
  if b.length < 8 then
    .error { req := 8, len := b.length, src := .slice, layer := .arp, off := 0 }
  else
    let minLen := 8 + bAt b 4 * 2 + bAt b 5 * 2
    if b.length < minLen then
      .error { req := minLen, len := b.length, src := .arpAddrLengths, layer := .arp, off := 0 }
    else .ok (b.take minLen)

/-- `ArpPacket` as produced by `ArpPacketSlice::to_packet` (`new_unchecked` copies the four address
    slices and takes the sizes from their lengths with `as u8`). -/
structure ArpPacket where
  hwAddrType : Nat
  protoAddrType : Nat
  hwAddrSize : Nat
  protoAddrSize : Nat
  operation : Nat
  senderHwAddr : Bytes
  senderProtocolAddr : Bytes
  targetHwAddr : Bytes
  targetProtocolAddr : Bytes
  deriving DecidableEq, Repr

/-- `ArpPacketSlice::to_packet` on an accepted slice `s`. -/
def arpToPacket (s : Bytes) : ArpPacket :=
  let h := bAt s 4
  let p := bAt s 5
  let senderHw := sub s 8 h
  let senderProto := sub s (8 + h) p
  { hwAddrType := be16 s 0, protoAddrType := be16 s 2,
    hwAddrSize := senderHw.length % 256, protoAddrSize := senderProto.length % 256,
    operation := be16 s 6,
    senderHwAddr := senderHw, senderProtocolAddr := senderProto,
    targetHwAddr := sub s (8 + h + p) h, targetProtocolAddr := sub s (8 + h * 2 + p) p }

/-- `ArpPacket::from_slice` -/
def arpPacketFromSlice (b : Bytes) : Except LenError ArpPacket :=
  match arpSliceFromSlice b with
  | .error e => .error e
  | .ok s => .ok (arpToPacket s)

/-- `err::arp::ArpEthIpv4FromError` -/
inductive ArpEthIpv4FromError
  | nonMatchingHwType (t : Nat) | nonMatchingProtocolType (t : Nat) | nonMatchingHwAddrSize (n : Nat)
  | nonMatchingProtoAddrSize (n : Nat)
  deriving DecidableEq, Repr

/-- `ArpEthIpv4Packet` -/
structure ArpEthIpv4Packet where
  operation : Nat
  senderMac : Bytes
  senderIpv4 : Bytes
  targetMac : Bytes
  targetIpv4 : Bytes
  deriving DecidableEq, Repr

/-- `ArpPacket::try_eth_ipv4` (= `ArpEthIpv4Packet::try_from`): checks in the order hardware type,
    protocol type, hardware size, protocol size; then copies the first 6 / 4 bytes of the buffers. -/
def tryEthIpv4 (p : ArpPacket) : Except ArpEthIpv4FromError ArpEthIpv4Packet :=
  if p.hwAddrType ≠ 1 then .error (.nonMatchingHwType p.hwAddrType)
  else if p.protoAddrType ≠ 0x0800 then .error (.nonMatchingProtocolType p.protoAddrType)
  else if p.hwAddrSize ≠ 6 then .error (.nonMatchingHwAddrSize p.hwAddrSize)
  else if p.protoAddrSize ≠ 4 then .error (.nonMatchingProtoAddrSize p.protoAddrSize)
  else .ok { operation := p.operation, senderMac := p.senderHwAddr.take 6,
             senderIpv4 := p.senderProtocolAddr.take 4, targetMac := p.targetHwAddr.take 6,
             targetIpv4 := p.targetProtocolAddr.take 4 }

end EpModel.View
