import EpModel.Model.Codec.LinkEth
import EpModel.Model.Codec.LinkArp
import EpModel.Model.Codec.TpUdpTcp
import EpModel.Model.Codec.TpIcmp
import EpModel.Model.Codec.NetIpv4
import EpModel.Model.Codec.NetIpv6
import EpModel.Model.Codec.NetIpv6Frag
import EpModel.Model.Codec.NetRawExt
import EpModel.Model.Codec.NetIpv4Exts
import EpModel.Model.ChecksumFast
/-
  Model of etherparse/src/packet_builder.rs (C10, family `build`).

  * `Cfg` is the builder state `PacketImpl` (link header, VLAN header, net header, transport
    header) plus the `last_next_header_ip_number` argument of `PacketBuilderStep<IpHeaders>::write`.
    The builder methods (`PacketBuilder::ethernet2`, `.ipv4`, `.udp`, `.tcp`, `.ack`, …) are the
    small functions in `namespace Step`; they only fill the state.
  * `finalWriteWithNet` follows `final_write_with_net` statement by statement: ether types,
    UDP length (`as u16`), `set_payload_len` / `set_payload_length` with their error,
    `set_next_headers`, IPv4 header checksum, the writes in order, the transport checksum with its
    error.  The writer is modelled by the bytes accepted so far: a failure carries the error
    *and* the prefix already handed to the writer (the link/VLAN/IP headers are written before the
    transport checksum can fail).
  * the emitted headers are the `toBytes` of the C08 codec models, the checksum accumulators are
    those of `EpModel.Checksum` (C09).
  * `net_header: None => unreachable!()` cannot be reached through the public API (every typed
    step that offers `write` has set the net header), so `Cfg.net` is not an `Option`.  The two
    other panic sites — the `debug_assert_eq!` on the SLL hardware type and the checked `u16`/`u32`
    additions of the TCP pseudo header length — are explicit (`BuildErr.panic`).
-/
namespace EpModel.Builder
open EpModel EpModel.Codec EpModel.CodecNet EpModel.Checksum

/-! ## IPv6 extension header composite (`Ipv6Extensions`, net/ipv6_exts.rs) -/

/-- `Ipv6RoutingExtensions` -/
structure Ipv6Routing where
  routing : Ipv6RawExtHeader
  finalDest : Option Ipv6RawExtHeader
deriving DecidableEq, Repr

/-- `Ipv6Extensions` -/
structure Ipv6Exts where
  hbh : Option Ipv6RawExtHeader
  dest : Option Ipv6RawExtHeader
  routing : Option Ipv6Routing
  fragment : Option Ipv6FragmentHeader
  auth : Option IpAuthHeader
deriving DecidableEq, Repr

/-- err::ipv6_exts::ExtsWalkError -/
inductive Ipv6ExtsWalkError where
  | hopByHopNotAtStart
  | extNotReferenced (missingExt : Nat)
deriving DecidableEq, Repr

def optLen {α} (f : α → Nat) : Option α → Nat
  | none => 0
  | some x => f x

namespace Ipv6Exts

def empty : Ipv6Exts := { hbh := none, dest := none, routing := none, fragment := none, auth := none }

def finalDest (e : Ipv6Exts) : Option Ipv6RawExtHeader :=
  match e.routing with
  | some r => r.finalDest
  | none => none

/-- `Ipv6Extensions::header_len` -/
def headerLen (e : Ipv6Exts) : Nat :=
  optLen Ipv6RawExtHeader.headerLen e.hbh
  + optLen Ipv6RawExtHeader.headerLen e.dest
  + (match e.routing with
     | some r => r.routing.headerLen + optLen Ipv6RawExtHeader.headerLen r.finalDest
     | none => 0)
  + optLen Ipv6FragmentHeader.headerLen e.fragment
  + optLen IpAuthHeader.headerLen e.auth

def rawWithNext (h : Ipv6RawExtHeader) (n : Nat) : Ipv6RawExtHeader :=
  { nextHeader := n, payload := h.payload }
def fragWithNext (h : Ipv6FragmentHeader) (n : Nat) : Ipv6FragmentHeader :=
  { nextHeader := n, fragmentOffset := h.fragmentOffset, moreFragments := h.moreFragments,
    identification := h.identification }
def authWithNext (h : IpAuthHeader) (n : Nat) : IpAuthHeader :=
  { nextHeader := n, spi := h.spi, sequenceNumber := h.sequenceNumber, rawIcv := h.rawIcv }

/-- `Ipv6Extensions::set_next_headers`: backwards through the RFC 8200 order. -/
def setNextHeaders (e : Ipv6Exts) (last : Nat) : Ipv6Exts × Nat :=
  let next := last
  -- final destination options
  let (fd, next) : Option Ipv6RawExtHeader × Nat :=
    match e.finalDest with
    | some h => (some (rawWithNext h next), 60)
    | none => (none, next)
  let (au, next) : Option IpAuthHeader × Nat :=
    match e.auth with
    | some h => (some (authWithNext h next), 51)
    | none => (none, next)
  let (fr, next) : Option Ipv6FragmentHeader × Nat :=
    match e.fragment with
    | some h => (some (fragWithNext h next), 44)
    | none => (none, next)
  let (rt, next) : Option Ipv6Routing × Nat :=
    match e.routing with
    | some r => (some { routing := rawWithNext r.routing next, finalDest := fd }, 43)
    | none => (none, next)
  let (de, next) : Option Ipv6RawExtHeader × Nat :=
    match e.dest with
    | some h => (some (rawWithNext h next), 60)
    | none => (none, next)
  let (hb, next) : Option Ipv6RawExtHeader × Nat :=
    match e.hbh with
    | some h => (some (rawWithNext h next), 0)
    | none => (none, next)
  ({ hbh := hb, dest := de, routing := rt, fragment := fr, auth := au }, next)

/-- the `NeedsWrite` flags of `write_internal` -/
structure Needs where
  hbh : Bool
  dest : Bool
  routing : Bool
  fragment : Bool
  auth : Bool
  finalDest : Bool
deriving DecidableEq, Repr

def Needs.count (n : Needs) : Nat :=
  n.hbh.toNat + n.dest.toNat + n.routing.toNat + n.fragment.toNat + n.auth.toNat + n.finalDest.toNat

/-- the checks behind the loop of `write_internal` -/
def notWritten (n : Needs) : Option Ipv6ExtsWalkError :=
  if n.hbh then some (.extNotReferenced 0)
  else if n.dest then some (.extNotReferenced 60)
  else if n.routing then some (.extNotReferenced 43)
  else if n.fragment then some (.extNotReferenced 44)
  else if n.auth then some (.extNotReferenced 51)
  else if n.finalDest then some (.extNotReferenced 60)
  else none

/-- the `loop` of `write_internal`: bytes written and the error, if any.  A flag is `true` only
    if the header is present (`unwrap`s in the code), so the `none` arms (which would be the
    `unwrap` panics) are written as a break; every iteration that does not break clears a flag. -/
def writeLoop (e : Ipv6Exts) (next : Nat) (routeWritten : Bool) (n : Needs) (out : Bytes) :
    Bytes × Option Ipv6ExtsWalkError :=
  if next = 0 then
    if n.hbh then (out, some .hopByHopNotAtStart) else (out, notWritten n)
  else if next = 60 then
    if routeWritten then
      if _hn : n.finalDest = true then
        match e.finalDest with
        | some h =>
          writeLoop e h.nextHeader routeWritten { n with finalDest := false } (out ++ h.toBytes)
        | none => (out, notWritten n)
      else (out, notWritten n)
    else
      if _hn : n.dest = true then
        match e.dest with
        | some h => writeLoop e h.nextHeader routeWritten { n with dest := false } (out ++ h.toBytes)
        | none => (out, notWritten n)
      else (out, notWritten n)
  else if next = 43 then
    if _hn : n.routing = true then
      match e.routing with
      | some r =>
        writeLoop e r.routing.nextHeader true { n with routing := false } (out ++ r.routing.toBytes)
      | none => (out, notWritten n)
    else (out, notWritten n)
  else if next = 44 then
    if _hn : n.fragment = true then
      match e.fragment with
      | some h => writeLoop e h.nextHeader routeWritten { n with fragment := false } (out ++ h.toBytes)
      | none => (out, notWritten n)
    else (out, notWritten n)
  else if next = 51 then
    if _hn : n.auth = true then
      match e.auth with
      | some h => writeLoop e h.nextHeader routeWritten { n with auth := false } (out ++ h.toBytes)
      | none => (out, notWritten n)
    else (out, notWritten n)
  else (out, notWritten n)
termination_by n.count
decreasing_by all_goals (simp_all [Needs.count])

/-- `Ipv6Extensions::write_internal(writer, first_header)` -/
def writeInternal (e : Ipv6Exts) (first : Nat) : Bytes × Option Ipv6ExtsWalkError :=
  let n : Needs :=
    { hbh := e.hbh.isSome, dest := e.dest.isSome, routing := e.routing.isSome,
      fragment := e.fragment.isSome, auth := e.auth.isSome, finalDest := e.finalDest.isSome }
  match first, e.hbh with
  | 0, some h => writeLoop e h.nextHeader false { n with hbh := false } h.toBytes
  | _, _ => writeLoop e first false n []

end Ipv6Exts

/-- `Ipv4Extensions::set_next_headers` -/
def ipv4ExtsSetNextHeaders (e : Ipv4Extensions) (last : Nat) : Ipv4Extensions × Nat :=
  match e.auth with
  | some h => ({ auth := some (Ipv6Exts.authWithNext h last) }, 51)
  | none => ({ auth := none }, last)

/-! ## builder state -/

inductive Link where
  | eth2 (h : Eth2)
  | sll (h : Sll)
deriving DecidableEq, Repr

/-- `VlanHeader` -/
inductive VlanH where
  | single (v : Vlan)
  | double (outer inner : Vlan)
deriving DecidableEq, Repr

/-- `NetHeaders` -/
inductive Net where
  | arp (p : Arp)
  | ipv4 (h : Ipv4Header) (e : Ipv4Extensions)
  | ipv6 (h : Ipv6Header) (e : Ipv6Exts)
deriving DecidableEq, Repr

/-- `TransportHeader` -/
inductive Tp where
  | udp (h : Udp)
  | tcp (h : Tcp)
  | icmp4 (h : Icmp4)
  | icmp6 (h : Icmp6)
deriving DecidableEq, Repr

/-- `PacketImpl` + the `last_next_header_ip_number` of the transport-less `write`. -/
structure Cfg where
  link : Option Link
  vlan : Option VlanH
  net : Net
  tp : Option Tp
  last : Nat
deriving DecidableEq, Repr

/-- err::ValueTooBigError<usize> -/
structure TooBig where
  actual : Nat
  maxAllowed : Nat
  ty : String
deriving DecidableEq, Repr

/-- err::packet::BuildWriteError (without `Io`: the modelled writers accept everything;
    `ArpHeaderNotMatch` is never constructed by the crate) + the explicit panic sites. -/
inductive BuildErr where
  | payloadLen (e : TooBig)
  | ipv4Exts (e : Ipv4ExtsWalkError)
  | ipv6Exts (e : Ipv6ExtsWalkError)
  | icmpv6InIpv4
  | panic (site : String)
deriving DecidableEq, Repr

structure BuildFail where
  err : BuildErr
  written : Bytes
deriving DecidableEq, Repr

/-! ## the builder methods -/

namespace Step

/-- `PacketBuilder::ethernet2(source, destination)` -/
def ethernet2 (src dst : Bytes) : Option Link := some (.eth2 { dst := dst, src := src, et := 0 })

/-- `PacketBuilder::linux_sll(packet_type, sender_address_valid_length, sender_address)` -/
def linuxSll (ptype alen : Nat) (addr : Bytes) : Option Link :=
  some (.sll { ptype := ptype, hrd := 1, alen := alen, addr := addr, proto := .etherType 0 })

/-- `.single_vlan(vlan_identifier)` -/
def singleVlan (vid : Nat) : Option VlanH := some (.single { pcp := 0, dei := false, vid := vid, et := 0 })

/-- `.double_vlan(outer, inner)` -/
def doubleVlan (outer inner : Nat) : Option VlanH :=
  some (.double { pcp := 0, dei := false, vid := outer, et := 0 }
                { pcp := 0, dei := false, vid := inner, et := 0 })

/-- `.ipv4(source, destination, time_to_live)`: `Ipv4Header { .., ..Default::default() }`
    (default: dont_fragment true, protocol 255, everything else 0 / false / empty) with empty
    extensions. -/
def ipv4 (src dst : Bytes) (ttl : Nat) : Net :=
  .ipv4 { dscp := 0, ecn := 0, totalLen := 0, identification := 0, dontFragment := true,
          moreFragments := false, fragmentOffset := 0, timeToLive := ttl, protocol := 255,
          headerChecksum := 0, source := src, destination := dst, options := [] }
        { auth := none }

/-- `.ipv6(source, destination, hop_limit)` -/
def ipv6 (src dst : Bytes) (hop : Nat) : Net :=
  .ipv6 { trafficClass := 0, flowLabel := 0, payloadLength := 0, nextHeader := 255, hopLimit := hop,
          source := src, destination := dst } Ipv6Exts.empty

/-- `.udp(source_port, destination_port)` -/
def udp (sp dp : Nat) : Tp := .udp { sp := sp, dp := dp, len := 0, ck := 0 }

/-- `TcpHeader::new` as used by `.tcp(source_port, destination_port, sequence_number, window_size)` -/
def tcp (sp dp seq win : Nat) : Tcp :=
  { sp := sp, dp := dp, seq := seq, ack := 0, ns := false, fin := false, syn := false, rst := false,
    psh := false, ackf := false, urg := false, ece := false, cwr := false, win := win, ck := 0,
    urgp := 0, opts := { len := 0, buf := List.replicate 40 0 } }

def ns (h : Tcp) : Tcp := { h with ns := true }
def fin (h : Tcp) : Tcp := { h with fin := true }
def syn (h : Tcp) : Tcp := { h with syn := true }
def rst (h : Tcp) : Tcp := { h with rst := true }
def psh (h : Tcp) : Tcp := { h with psh := true }
def ack (h : Tcp) (n : Nat) : Tcp := { h with ackf := true, ack := n }
def urg (h : Tcp) (p : Nat) : Tcp := { h with urg := true, urgp := p }
def ece (h : Tcp) : Tcp := { h with ece := true }
def cwr (h : Tcp) : Tcp := { h with cwr := true }
/-- `.options_raw(options)` / `.options(elements)` once the option area is known -/
def options (h : Tcp) (o : TcpOpts) : Tcp := { h with opts := o }

/-- `.icmpv4(icmp_type)`, `.icmpv4_raw`, `.icmpv4_echo_request`, `.icmpv4_echo_reply` -/
def icmpv4 (t : Icmp4Type) : Tp := .icmp4 { ty := t, ck := 0 }
def icmpv4Raw (t c : Nat) (b58 : Bytes) : Tp := .icmp4 { ty := .unknown t c b58, ck := 0 }
def icmpv4EchoRequest (id seq : Nat) : Tp := .icmp4 { ty := .echoRequest id seq, ck := 0 }
def icmpv4EchoReply (id seq : Nat) : Tp := .icmp4 { ty := .echoReply id seq, ck := 0 }
/-- `.icmpv6(icmp_type)`, `.icmpv6_raw`, `.icmpv6_echo_request`, `.icmpv6_echo_reply` -/
def icmpv6 (t : Icmp6Type) : Tp := .icmp6 { ty := t, ck := 0 }
def icmpv6Raw (t c : Nat) (b58 : Bytes) : Tp := .icmp6 { ty := .unknown t c b58, ck := 0 }
def icmpv6EchoRequest (id seq : Nat) : Tp := .icmp6 { ty := .echoRequest id seq, ck := 0 }
def icmpv6EchoReply (id seq : Nat) : Tp := .icmp6 { ty := .echoReply id seq, ck := 0 }

end Step

/-! ## protocol checksums (transport/*.rs) -/

/-- a chain of `add_2bytes` / `add_4bytes` / `add_8bytes` calls (one list element per call; on the
    64 bit target all three are `overflowing_add` of the native-endian value + carry). -/
def addParts (s : Nat) (parts : List Bytes) : Nat :=
  parts.foldl (fun acc p => addCarry 64 acc (leVal p)) s

/-- the two `add_8bytes` calls of `add_16bytes` -/
def split16 (v : Bytes) : List Bytes := [v.take 8, v.drop 8]

/-- `UdpHeader::calc_checksum_post_ip` arguments: ports, length; then the payload slice;
    `to_ones_complement_with_no_zero().to_be()` -/
def udpPostIp (h : Udp) (pseudo : List Bytes) (payload : Bytes) : Nat :=
  let s := addParts 0 (pseudo ++ [enc16 h.sp, enc16 h.dp, enc16 h.len])
  swap16 (onesComplementNoZero64 (addSlice64 s payload))

/-- `UdpHeader::calc_checksum_ipv4` → `calc_checksum_ipv4_raw` -/
def udpChecksumIpv4 (h : Udp) (ip : Ipv4Header) (payload : Bytes) : Except TooBig Nat :=
  if 65535 - 8 < payload.length then
    .error { actual := payload.length, maxAllowed := 65535 - 8, ty := "UdpPayloadLengthIpv4" }
  else .ok (udpPostIp h [ip.source, ip.destination, [0, 17], enc16 h.len] payload)

/-- `UdpHeader::calc_checksum_ipv6` → `calc_checksum_ipv6_raw` -/
def udpChecksumIpv6 (h : Udp) (ip : Ipv6Header) (payload : Bytes) : Except TooBig Nat :=
  if 4294967295 - 8 < payload.length then
    .error { actual := payload.length, maxAllowed := 4294967295 - 8, ty := "UdpPayloadLengthIpv6" }
  else
    .ok (udpPostIp h (split16 ip.source ++ split16 ip.destination ++ [[0, 17], enc16 h.len]) payload)

/-- `TcpHeader::calc_checksum_post_ip`: ports, seq, ack, the two flag bytes, window, urgent pointer,
    `add_slice(options)`, `add_slice(payload)`, `ones_complement().to_be()` -/
def tcpPostIp (h : Tcp) (pseudo : List Bytes) (payload : Bytes) : Nat :=
  let s := addParts 0 (pseudo ++ [enc16 h.sp, enc16 h.dp, enc32 h.seq, enc32 h.ack,
              [u8 h.byte12, u8 h.byte13], enc16 h.win, enc16 h.urgp])
  let s := addSlice64 s h.opts.asSlice
  swap16 (onesComplement64 (addSlice64 s payload))

/-- `TcpHeader::calc_checksum_ipv4` → `_raw`; `tcp_len = header_len_u16() + payload.len() as u16`
    is a checked `u16` addition (overflow = panic in the modelled build). -/
def tcpChecksumIpv4 (h : Tcp) (ip : Ipv4Header) (payload : Bytes) : Except BuildErr Nat :=
  let maxPayload := 65535 - h.headerLen
  if maxPayload < payload.length then
    .error (.payloadLen { actual := payload.length, maxAllowed := maxPayload, ty := "TcpPayloadLengthIpv4" })
  else
    let tcpLen := h.headerLen % 65536 + payload.length % 65536
    if 65536 ≤ tcpLen then .error (.panic "tcp_len u16 add overflow")
    else .ok (tcpPostIp h [ip.source, ip.destination, [0, 6], enc16 tcpLen] payload)

/-- `TcpHeader::calc_checksum_ipv6` → `_raw`; `u32::from(header_len_u16()) + payload.len() as u32` -/
def tcpChecksumIpv6 (h : Tcp) (ip : Ipv6Header) (payload : Bytes) : Except BuildErr Nat :=
  let maxPayload := 4294967295 - h.headerLen
  if maxPayload < payload.length then
    .error (.payloadLen { actual := payload.length, maxAllowed := maxPayload, ty := "TcpPayloadLengthIpv6" })
  else
    let tcpLen := h.headerLen % 65536 + payload.length % 4294967296
    if 4294967296 ≤ tcpLen then .error (.panic "tcp_len u32 add overflow")
    else
      .ok (tcpPostIp h (split16 ip.source ++ split16 ip.destination ++ [enc32 tcpLen, [0, 6]]) payload)

/-- the `add_2bytes` / `add_4bytes` calls of `Icmpv4Type::calc_checksum`, per variant -/
def icmp4Parts : Icmp4Type → List Bytes
  | .unknown t c b58 => [[u8 t, u8 c], b58]
  | .echoReply id seq => [[0, 0], enc16 id, enc16 seq]
  | .destUnreach code mtu => if code = 4 then [[3, 4], enc16 mtu] else [[3, u8 code]]
  | .redirect code gw => [[5, u8 code], gw]
  | .echoRequest id seq => [[8, 0], enc16 id, enc16 seq]
  | .timeExceeded code => [[11, u8 code]]
  | .paramProblem code ptr => if code = 0 then [[12, 0], [u8 ptr, 0]] else [[12, u8 code]]
  | .tsRequest id seq o r t => [[13, 0], enc16 id, enc16 seq, enc32 o, enc32 r, enc32 t]
  | .tsReply id seq o r t => [[14, 0], enc16 id, enc16 seq, enc32 o, enc32 r, enc32 t]

/-- `Icmpv4Type::calc_checksum(payload)` -/
def icmp4Checksum (t : Icmp4Type) (payload : Bytes) : Nat :=
  swap16 (onesComplement64 (addSlice64 (addParts 0 (icmp4Parts t)) payload))

/-- the calls behind the pseudo header in `Icmpv6Type::calc_checksum`, per variant -/
def icmp6Parts : Icmp6Type → List Bytes
  | .unknown t c b58 => [[u8 t, u8 c], b58]
  | .destUnreach code => [[1, u8 code]]
  | .packetTooBig mtu => [[2, 0], enc32 mtu]
  | .timeExceeded code => [[3, u8 code]]
  | .paramProblem code ptr => [[4, u8 code], enc32 ptr]
  | .echoRequest id seq => [[128, 0], enc16 id ++ enc16 seq]
  | .echoReply id seq => [[129, 0], enc16 id ++ enc16 seq]
  | .routerSolicitation => [[133, 0], [0, 0, 0, 0]]
  | .routerAdvertisement chl m o lt => [[134, 0], Icmp6.raBytes chl m o lt]
  | .neighborSolicitation => [[135, 0], [0, 0, 0, 0]]
  | .neighborAdvertisement r s o => [[136, 0], Icmp6.naBytes r s o]
  | .redirect => [[137, 0], [0, 0, 0, 0]]

/-- `Icmpv6Type::calc_checksum(source, destination, payload)`; `msg_len as u32` -/
def icmp6Checksum (t : Icmp6Type) (src dst : Bytes) (payload : Bytes) : Except TooBig Nat :=
  let maxPayload := 4294967295 - 8
  if maxPayload < payload.length then
    .error { actual := payload.length, maxAllowed := maxPayload, ty := "Icmpv6PayloadLength" }
  else
    let msgLen := payload.length + 8
    let s := addParts 0 (split16 src ++ split16 dst ++ [[0, 58], enc32 (msgLen % 4294967296)]
                          ++ icmp6Parts t)
    .ok (swap16 (onesComplement64 (addSlice64 s payload)))

/-! ## final_write_with_net -/

def Tp.headerLen : Tp → Nat
  | .udp h => h.headerLen
  | .tcp h => h.headerLen
  | .icmp4 h => h.headerLen
  | .icmp6 h => h.headerLen

def Tp.toBytes : Tp → Bytes
  | .udp h => h.toBytes
  | .tcp h => h.toBytes
  | .icmp4 h => h.toBytes
  | .icmp6 h => h.toBytes

/-- the `match &transport` that selects the ip number -/
def Tp.ipNumber : Tp → Nat
  | .icmp4 _ => 1
  | .icmp6 _ => 58
  | .udp _ => 17
  | .tcp _ => 6

def Net.etherType : Net → Nat
  | .ipv4 _ _ => 0x0800
  | .ipv6 _ _ => 0x86dd
  | .arp _ => 0x0806

/-- `LinuxSllProtocolType::change_value` -/
def sllChangeValue (p : SllProto) (v : Nat) : SllProto :=
  match p with
  | .ignored _ => .ignored v
  | .netlink _ => .netlink v
  | .gre _ => .gre v
  | .etherType _ | .nonstd _ => if isNonstdEtherType v then .nonstd v else .etherType v

def withEt (v : Vlan) (et : Nat) : Vlan := { pcp := v.pcp, dei := v.dei, vid := v.vid, et := et }

/-- the link header as written: ether type / protocol type derived from VLAN presence and net. -/
def linkBytes (link : Option Link) (vlan : Option VlanH) (netEt : Nat) : Except BuildErr Bytes :=
  match link with
  | none => .ok []
  | some (.eth2 eth) =>
    let et := match vlan with
      | some (.single _) => 0x8100
      | some (.double _ _) => 0x88a8
      | none => netEt
    .ok (Eth2.toBytes { dst := eth.dst, src := eth.src, et := et })
  | some (.sll s) =>
    if s.hrd ≠ 1 then .error (.panic "debug_assert_eq!(linux_sll.arp_hrd_type, ETHERNET)")
    else
      .ok (Sll.toBytes { ptype := s.ptype, hrd := s.hrd, alen := s.alen, addr := s.addr,
                         proto := sllChangeValue s.proto netEt })

/-- the VLAN header(s) as written -/
def vlanBytes (vlan : Option VlanH) (netEt : Nat) : Bytes :=
  match vlan with
  | some (.single v) => (withEt v netEt).toBytes
  | some (.double o i) => (withEt o 0x8100).toBytes ++ (withEt i netEt).toBytes
  | none => []

/-- `udp.length = (UdpHeader::LEN + payload.len()) as u16` -/
def setUdpLen (tp : Option Tp) (n : Nat) : Option Tp :=
  match tp with
  | some (.udp u) => some (.udp { sp := u.sp, dp := u.dp, len := (8 + n) % 65536, ck := u.ck })
  | t => t

/-- `Ipv4Header::set_payload_len` -/
def ipv4SetPayloadLen (ip : Ipv4Header) (value : Nat) : Except TooBig Ipv4Header :=
  let maxAllowed := 65535 - ip.optLenU8 - 20      -- max_payload_len(): u16 arithmetic, no underflow for ≤ 40 option bytes
  if value > maxAllowed then
    .error { actual := value, maxAllowed := maxAllowed, ty := "Ipv4PayloadLength" }
  else .ok { ip with totalLen := (ip.headerLen + value) % 65536 }

/-- `Ipv6Header::set_payload_length` -/
def ipv6SetPayloadLength (ip : Ipv6Header) (size : Nat) : Except TooBig Ipv6Header :=
  if 65535 < size then .error { actual := size, maxAllowed := 65535, ty := "Ipv6PayloadLength" }
  else .ok { ip with payloadLength := size % 65536 }

def withCk (t : Tp) (ck : Nat) : Tp :=
  match t with
  | .udp h => .udp { sp := h.sp, dp := h.dp, len := h.len, ck := ck }
  | .tcp h => .tcp { h with ck := ck }
  | .icmp4 h => .icmp4 { ty := h.ty, ck := ck }
  | .icmp6 h => .icmp6 { ty := h.ty, ck := ck }

/-- `TransportHeader::update_checksum_ipv4` (+ the `E::from` conversions) -/
def updateChecksumIpv4 (t : Tp) (ip : Ipv4Header) (payload : Bytes) : Except BuildErr Tp :=
  match t with
  | .udp h =>
    match udpChecksumIpv4 h ip payload with
    | .error e => .error (.payloadLen e)
    | .ok ck => .ok (withCk t ck)
  | .tcp h =>
    match tcpChecksumIpv4 h ip payload with
    | .error e => .error e
    | .ok ck => .ok (withCk t ck)
  | .icmp4 h => .ok (withCk t (icmp4Checksum h.ty payload))
  | .icmp6 _ => .error .icmpv6InIpv4

/-- `TransportHeader::update_checksum_ipv6` -/
def updateChecksumIpv6 (t : Tp) (ip : Ipv6Header) (payload : Bytes) : Except BuildErr Tp :=
  match t with
  | .icmp4 h => .ok (withCk t (icmp4Checksum h.ty payload))
  | .icmp6 h =>
    match icmp6Checksum h.ty ip.source ip.destination payload with
    | .error e => .error (.payloadLen e)
    | .ok ck => .ok (withCk t ck)
  | .udp h =>
    match udpChecksumIpv6 h ip payload with
    | .error e => .error (.payloadLen e)
    | .ok ck => .ok (withCk t ck)
  | .tcp h =>
    match tcpChecksumIpv6 h ip payload with
    | .error e => .error e
    | .ok ck => .ok (withCk t ck)

def tpBytes : Option Tp → Bytes
  | some t => t.toBytes
  | none => []

def tpHeaderLen : Option Tp → Nat
  | some t => t.headerLen
  | none => 0

/-- the IPv4 arm of the `match net`: header with derived fields, extensions with derived next
    headers, transport header with its checksum; or the failure with what was written so far
    (`pre` = link + VLAN bytes already written). -/
def ipv4Arm (pre : Bytes) (ip : Ipv4Header) (exts : Ipv4Extensions) (tp : Option Tp) (payload : Bytes) :
    Except BuildFail Bytes :=
  match ipv4SetPayloadLen ip (exts.headerLen + tpHeaderLen tp + payload.length) with
  | .error e => .error { err := .payloadLen e, written := pre }
  | .ok ip1 =>
    let (exts1, ip2) : Ipv4Extensions × Ipv4Header :=
      match tp with
      | some t =>
        let r := ipv4ExtsSetNextHeaders exts t.ipNumber
        (r.1, { ip1 with protocol := r.2 })
      | none => (exts, ip1)
    let ip3 : Ipv4Header := { ip2 with headerChecksum := ip2.calcHeaderChecksum }
    let w1 := pre ++ ip3.toBytes
    match exts1.writeOut ip3.protocol with
    | .error e => .error { err := .ipv4Exts e, written := w1 }
    | .ok eb =>
      let w2 := w1 ++ eb
      match tp with
      | none => .ok (w2 ++ payload)
      | some t =>
        match updateChecksumIpv4 t ip3 payload with
        | .error e => .error { err := e, written := w2 }
        | .ok t' => .ok (w2 ++ t'.toBytes ++ payload)

/-- the IPv6 arm. -/
def ipv6Arm (pre : Bytes) (ip : Ipv6Header) (exts : Ipv6Exts) (tp : Option Tp) (payload : Bytes) :
    Except BuildFail Bytes :=
  match ipv6SetPayloadLength ip (exts.headerLen + tpHeaderLen tp + payload.length) with
  | .error e => .error { err := .payloadLen e, written := pre }
  | .ok ip1 =>
    let (exts1, ip2) : Ipv6Exts × Ipv6Header :=
      match tp with
      | some t =>
        let r := exts.setNextHeaders t.ipNumber
        (r.1, { ip1 with nextHeader := r.2 })
      | none => (exts, ip1)
    let w1 := pre ++ ip2.toBytes
    match exts1.writeInternal ip2.nextHeader with
    | (eb, some e) => .error { err := .ipv6Exts e, written := w1 ++ eb }
    | (eb, none) =>
      let w2 := w1 ++ eb
      match tp with
      | none => .ok (w2 ++ payload)
      | some t =>
        match updateChecksumIpv6 t ip2 payload with
        | .error e => .error { err := e, written := w2 }
        | .ok t' => .ok (w2 ++ t'.toBytes ++ payload)

/-- `final_write_with_net(builder, writer, payload)` -/
def finalWriteWithNet (cfg : Cfg) (payload : Bytes) : Except BuildFail Bytes :=
  let netEt := cfg.net.etherType
  match linkBytes cfg.link cfg.vlan netEt with
  | .error e => .error { err := e, written := [] }
  | .ok lb =>
    let pre := lb ++ vlanBytes cfg.vlan netEt
    let tp := setUdpLen cfg.tp payload.length
    match cfg.net with
    | .ipv4 ip exts => ipv4Arm pre ip exts tp payload
    | .ipv6 ip exts => ipv6Arm pre ip exts tp payload
    | .arp p => .ok (pre ++ p.toBytes ++ tpBytes tp ++ payload)

/-- the prologue of `PacketBuilderStep<IpHeaders>::write` (no transport header): the IP header's
    protocol / next header and the extension chain end with `last_next_header_ip_number`. -/
def rawPrep (cfg : Cfg) : Cfg :=
  match cfg.tp, cfg.net with
  | none, .ipv4 ip exts =>
    let r := ipv4ExtsSetNextHeaders exts cfg.last
    { cfg with net := .ipv4 { ip with protocol := r.2 } r.1 }
  | none, .ipv6 ip exts =>
    let r := exts.setNextHeaders cfg.last
    { cfg with net := .ipv6 { ip with nextHeader := r.2 } r.1 }
  | _, _ => cfg

/-- `write` / `write_to_vec` of every step type (into a writer that accepts everything). -/
def build (cfg : Cfg) (payload : Bytes) : Except BuildFail Bytes :=
  finalWriteWithNet (rawPrep cfg) payload

/-- `final_size` (= `size(payload_size)` of every step type) -/
def size (cfg : Cfg) (payloadSize : Nat) : Nat :=
  (match cfg.link with
   | some (.eth2 h) => h.headerLen
   | some (.sll h) => h.headerLen
   | none => 0)
  + (match cfg.vlan with
     | some (.single _) => 4
     | some (.double _ _) => 4 * 2
     | none => 0)
  + (match cfg.net with
     | .ipv4 h e => h.headerLen + e.headerLen
     | .ipv6 _ e => 40 + e.headerLen
     | .arp p => p.headerLen)
  + (match cfg.tp with
     | some (.icmp4 h) => h.headerLen
     | some (.icmp6 h) => h.headerLen
     | some (.udp _) => 8
     | some (.tcp h) => h.headerLen
     | none => 0)
  + payloadSize

/-- err::packet::BuildSliceWriteError as far as reachable: `Space(required)` or a build error -/
inductive SliceRes where
  | ok (n : Nat) (out : Bytes)
  | space (required : Nat)
  | fail (e : BuildErr)
  /-- a `write_all` into `buffer[..required]` that does not fit (excluded by `build_size`) -/
  | overflow
deriving DecidableEq, Repr

/-- `final_write_to_slice` into a buffer of `cap` bytes (after `rawPrep`): `Space(required)` if the
    buffer is shorter than `final_size`, otherwise `final_write_with_net` into `buffer[..required]`.
    A write that does not fit the sub-slice is made visible as `overflow`; that it cannot
    happen is `build_size` / `slice_agrees`. -/
def writeToSlice (cfg : Cfg) (cap : Nat) (payload : Bytes) : SliceRes :=
  let required := size cfg payload.length
  if cap < required then .space required
  else
    match build cfg payload with
    | .error f => .fail f.err
    | .ok out => if out.length ≤ required then .ok required out else .overflow

/-! ## well-formed configurations and encodability (hypotheses of the C10 theorems) -/

/-- a predicate on the content of an `Option` (vacuous for `none`) -/
def optP {α} (p : α → Prop) : Option α → Prop
  | none => True
  | some x => p x

instance {α} (p : α → Prop) [DecidablePred p] (o : Option α) : Decidable (optP p o) := by
  cases o <;> unfold optP <;> infer_instance

/-- the fixed array sizes of the ICMP types (`[u8;4]` fields); numeric fields need no bound for
    the builder theorems (every narrowing in `to_bytes` is explicit). -/
def icmp4LenOk : Icmp4Type → Prop
  | .unknown _ _ b => b.length = 4
  | .redirect _ g => g.length = 4
  | _ => True
def icmp6LenOk : Icmp6Type → Prop
  | .unknown _ _ b => b.length = 4
  | _ => True
instance (t : Icmp4Type) : Decidable (icmp4LenOk t) := by cases t <;> unfold icmp4LenOk <;> infer_instance
instance (t : Icmp6Type) : Decidable (icmp6LenOk t) := by cases t <;> unfold icmp6LenOk <;> infer_instance

def Ipv6Routing.WF (r : Ipv6Routing) : Prop := r.routing.WF ∧ optP Ipv6RawExtHeader.WF r.finalDest
instance (r : Ipv6Routing) : Decidable r.WF := by unfold Ipv6Routing.WF; infer_instance

def Ipv6Exts.WF (e : Ipv6Exts) : Prop :=
  optP Ipv6RawExtHeader.WF e.hbh ∧ optP Ipv6RawExtHeader.WF e.dest ∧ optP Ipv6Routing.WF e.routing ∧
  optP Ipv6FragmentHeader.WF e.fragment ∧ optP IpAuthHeader.WF e.auth
instance (e : Ipv6Exts) : Decidable e.WF := by unfold Ipv6Exts.WF; infer_instance

/-- the header types' own invariants (C08 `WF`); for SLL additionally what `linux_sll` sets. -/
def Link.WF : Link → Prop
  | .eth2 h => h.WF
  | .sll s => s.WF ∧ s.hrd = 1
instance (l : Link) : Decidable l.WF := by cases l <;> unfold Link.WF <;> infer_instance

def VlanH.WF : VlanH → Prop
  | .single v => v.WF
  | .double o i => o.WF ∧ i.WF
instance (v : VlanH) : Decidable v.WF := by cases v <;> unfold VlanH.WF <;> infer_instance

def Net.WF : Net → Prop
  | .arp p => p.WF
  | .ipv4 h e => h.WF ∧ optP IpAuthHeader.WF e.auth
  | .ipv6 h e => h.WF ∧ e.WF
instance (n : Net) : Decidable n.WF := by cases n <;> unfold Net.WF <;> infer_instance

def Tp.WF : Tp → Prop
  | .udp h => h.WF
  | .tcp h => h.WF
  | .icmp4 h => icmp4LenOk h.ty
  | .icmp6 h => icmp6LenOk h.ty
instance (t : Tp) : Decidable t.WF := by cases t <;> unfold Tp.WF <;> infer_instance

/-- every value the typed builder API can hold satisfies this (checked constructors, fixed size
    arrays, machine integer ranges). -/
def Cfg.WF (c : Cfg) : Prop :=
  optP Link.WF c.link ∧ optP VlanH.WF c.vlan ∧ c.net.WF ∧ optP Tp.WF c.tp ∧ c.last < 256
instance (c : Cfg) : Decidable c.WF := by unfold Cfg.WF; infer_instance

/-- length of the extension headers of the net layer -/
def Net.extsLen : Net → Nat
  | .arp _ => 0
  | .ipv4 _ e => e.headerLen
  | .ipv6 _ e => e.headerLen

/-- what the IP length field has to cover: extension headers, transport header, payload -/
def innerLen (c : Cfg) (n : Nat) : Nat := c.net.extsLen + tpHeaderLen c.tp + n

def isIcmp6 : Option Tp → Bool
  | some (.icmp6 _) => true
  | _ => false

/-- the configuration can be encoded with a payload of `n` bytes: the IPv4 total length / IPv6
    payload length field can hold the real size (this also bounds the UDP length and the TCP
    pseudo header length), and ICMPv6 is not put into IPv4.  ARP has no length field. -/
def Encodable (c : Cfg) (n : Nat) : Prop :=
  match c.net with
  | .arp _ => True
  | .ipv4 ip _ => 20 + ip.options.length + innerLen c n ≤ 65535 ∧ isIcmp6 c.tp = false
  | .ipv6 _ _ => innerLen c n ≤ 65535
instance (c : Cfg) (n : Nat) : Decidable (Encodable c n) := by
  unfold Encodable; split <;> infer_instance

end EpModel.Builder
