import EpModel.Model.Icmp
/-
  Model of the ICMPv6 payload views and the NDP option iterator, following the Rust code:
    transport/icmpv6/icmpv6_payload_slice/*.rs   Icmpv6PayloadSlice::{from_slice, from_type_u8}, the
                                                 per-type `from_slice` + accessors
    transport/icmpv6/ndp_option/*.rs             NdpOptionHeader::from_slice, the six option slices
    transport/icmpv6/ndp_options_iterator.rs     NdpOptionsIterator::{parse_next_option, next}
-/
namespace EpModel.View
open EpModel

/-! ## ICMPv6 payload slices -/

/-- variant of `Icmpv6PayloadSlice` (each variant holds the whole payload slice). -/
inductive Payload6Kind
  | destinationUnreachable | packetTooBig | timeExceeded | parameterProblem | echoRequest
  | echoReply | routerSolicitation | routerAdvertisement | neighborSolicitation
  | neighborAdvertisement | redirect | raw
  deriving DecidableEq, Repr

/-- `FIXED_PART_LEN` of the per-type payload slices (0 where `from_slice` has no length check). -/
def Payload6Kind.fixedPartLen : Payload6Kind → Nat
  | .routerAdvertisement => 8       -- RouterAdvertisementPayload::LEN
  | .neighborSolicitation => 16     -- NeighborSolicitationPayload::LEN
  | .neighborAdvertisement => 16    -- NeighborAdvertisementPayload::LEN
  | .redirect => 32                 -- RedirectPayload::LEN
  | _ => 0

/-- the per-type `XxxPayloadSlice::from_slice(payload)`: a length check against FIXED_PART_LEN for
    RA / NS / NA / Redirect, no check for the others. -/
def payload6SliceFromSlice (k : Payload6Kind) (p : Bytes) : Except LenError Payload6Kind :=
  match k with
  | .routerAdvertisement | .neighborSolicitation | .neighborAdvertisement | .redirect =>
    if p.length < k.fixedPartLen then
      .error { req := k.fixedPartLen, len := p.length, src := .slice, layer := .icmpv6, off := 0 }
    else .ok k
  | _ => .ok k

/-- `Icmpv6PayloadSlice::from_slice(&Icmpv6Type, payload)`: dispatch on the decoded type. -/
def payload6FromType (ty : Icmpv6Type) (p : Bytes) : Except LenError Payload6Kind :=
  match ty with
  | .destinationUnreachable _ => payload6SliceFromSlice .destinationUnreachable p
  | .packetTooBig _ => payload6SliceFromSlice .packetTooBig p
  | .timeExceeded _ => payload6SliceFromSlice .timeExceeded p
  | .parameterProblem _ _ => payload6SliceFromSlice .parameterProblem p
  | .echoRequest _ => payload6SliceFromSlice .echoRequest p
  | .echoReply _ => payload6SliceFromSlice .echoReply p
  | .routerSolicitation => payload6SliceFromSlice .routerSolicitation p
  | .routerAdvertisement _ => payload6SliceFromSlice .routerAdvertisement p
  | .neighborSolicitation => payload6SliceFromSlice .neighborSolicitation p
  | .neighborAdvertisement _ => payload6SliceFromSlice .neighborAdvertisement p
  | .redirect => payload6SliceFromSlice .redirect p
  | .unknown _ _ _ => .ok .raw

/-- `Icmpv6PayloadSlice::from_type_u8(type_u8, code_u8, payload)` (used by
    `Icmpv6Slice::payload_slice`): a second copy of the dispatch, on the raw type and code bytes. -/
def payload6FromTypeU8 (t c : Nat) (p : Bytes) : Except LenError Payload6Kind :=
  if t = 1 ∧ (DestUnreachableCode6.fromU8 c).isSome then
    payload6SliceFromSlice .destinationUnreachable p
  else if t = 2 ∧ c = 0 then payload6SliceFromSlice .packetTooBig p
  else if t = 3 ∧ (TimeExceededCode6.fromU8 c).isSome then payload6SliceFromSlice .timeExceeded p
  else if t = 4 ∧ (ParameterProblemCode6.fromU8 c).isSome then
    payload6SliceFromSlice .parameterProblem p
  else if t = 128 ∧ c = 0 then payload6SliceFromSlice .echoRequest p
  else if t = 129 ∧ c = 0 then payload6SliceFromSlice .echoReply p
  else if t = 133 ∧ c = 0 then payload6SliceFromSlice .routerSolicitation p
  else if t = 134 ∧ c = 0 then payload6SliceFromSlice .routerAdvertisement p
  else if t = 135 ∧ c = 0 then payload6SliceFromSlice .neighborSolicitation p
  else if t = 136 ∧ c = 0 then payload6SliceFromSlice .neighborAdvertisement p
  else if t = 137 ∧ c = 0 then payload6SliceFromSlice .redirect p
  else .ok .raw

/-- `Icmpv6Slice::payload_slice`: `from_type_u8(type_u8(), code_u8(), payload())`. -/
def icmp6PayloadSlice (b : Bytes) : Except LenError Payload6Kind :=
  payload6FromTypeU8 (bAt b 0) (bAt b 1) (b.drop 8)

/-- `options()` of an accepted payload slice: `&slice[FIXED_PART_LEN..]` as a window of the
    payload (only the five NDP kinds have an option area). -/
def Payload6Kind.options (k : Payload6Kind) (payloadLen : Nat) : Option Win :=
  match k with
  | .routerSolicitation | .routerAdvertisement | .neighborSolicitation | .neighborAdvertisement
  | .redirect => some { off := k.fixedPartLen, len := payloadLen - k.fixedPartLen }
  | _ => none

/-! ## NDP options -/

/-- `NdpOptionReadError` (option ids are the raw type bytes). -/
inductive NdpErr
  | unexpectedEndOfSlice (optionId expectedSize actualSize : Nat)
  | zeroLength (optionId : Nat)
  | unexpectedSize (optionId expectedSize actualSize : Nat)
  | unexpectedHeader (expectedId actualId expectedUnits actualUnits : Nat)
  deriving DecidableEq, Repr

/-- variant of `NdpOptionSlice`. -/
inductive NdpKind
  | sourceLinkLayerAddress | targetLinkLayerAddress | prefixInformation | redirectedHeader | mtu
  | unknown
  deriving DecidableEq, Repr

/-- `NdpOptionHeader::from_slice`: the first two bytes (type, length units); with fewer than two
    bytes `UnexpectedSize` carrying the first byte (or 0). -/
def ndpHeaderFromSlice (s : Bytes) : Except NdpErr (Nat × Nat) :=
  if s.length < 2 then .error (.unexpectedSize (bAt s 0) 2 s.length)
  else .ok (bAt s 0, bAt s 1)

/-- `SourceLinkLayerAddressOptionSlice::from_slice` / `TargetLinkLayerAddressOptionSlice::from_slice`
    (two textual copies differing in the expected type `ty`). -/
def linkLayerOptFromSlice (ty : Nat) (s : Bytes) : Except NdpErr Unit :=
  match ndpHeaderFromSlice s with
  | .error e => .error e
  | .ok (t, u) =>
    if ty ≠ t then .error (.unexpectedHeader ty t u u)
    else if u = 0 then .error (.zeroLength t)
    else if u * 8 ≠ s.length then .error (.unexpectedSize t (u * 8) s.length)
    else .ok ()

/-- `PrefixInformationOptionSlice::from_slice`: exactly 32 bytes, then
    `PrefixInformation::from_bytes` checks the first two bytes to be `[3, 4]`. -/
def prefixOptFromSlice (s : Bytes) : Except NdpErr Unit :=
  if s.length ≠ 32 then .error (.unexpectedSize 3 32 s.length)
  else if ¬ (bAt s 0 = 3 ∧ bAt s 1 = 4) then .error (.unexpectedHeader 3 (bAt s 0) 4 (bAt s 1))
  else .ok ()

/-- `RedirectedHeaderOptionSlice::from_slice` -/
def redirectedOptFromSlice (s : Bytes) : Except NdpErr Unit :=
  if s.length < 8 then .error (.unexpectedSize 4 8 s.length)
  else
    match ndpHeaderFromSlice s with
    | .error e => .error e
    | .ok (t, u) =>
      if 4 ≠ t then .error (.unexpectedHeader 4 t u u)
      else if u = 0 then .error (.zeroLength t)
      else if u * 8 ≠ s.length then .error (.unexpectedSize t (u * 8) s.length)
      else .ok ()

/-- `MtuOptionSlice::from_slice`: exactly 8 bytes, header `[5, 1]`. -/
def mtuOptFromSlice (s : Bytes) : Except NdpErr Unit :=
  if s.length ≠ 8 then .error (.unexpectedSize 5 8 s.length)
  else if bAt s 0 ≠ 5 ∨ bAt s 1 ≠ 1 then .error (.unexpectedHeader 5 (bAt s 0) 1 (bAt s 1))
  else .ok ()

/-- `UnknownNdpOptionSlice::from_slice` -/
def unknownOptFromSlice (s : Bytes) : Except NdpErr Unit :=
  match ndpHeaderFromSlice s with
  | .error e => .error e
  | .ok (t, u) =>
    if u = 0 then .error (.zeroLength t)
    else if u * 8 ≠ s.length then .error (.unexpectedSize t (u * 8) s.length)
    else .ok ()

/-- the `match option_id` of `parse_next_option`: which slice type parses an option of type `t`. -/
def ndpKindOfType (t : Nat) : NdpKind :=
  if t = 1 then .sourceLinkLayerAddress
  else if t = 2 then .targetLinkLayerAddress
  else if t = 3 then .prefixInformation
  else if t = 4 then .redirectedHeader
  else if t = 5 then .mtu
  else .unknown

/-- the per-kind `from_slice` applied to the bytes of one option. -/
def ndpOptFromSlice (k : NdpKind) (s : Bytes) : Except NdpErr Unit :=
  match k with
  | .sourceLinkLayerAddress => linkLayerOptFromSlice 1 s
  | .targetLinkLayerAddress => linkLayerOptFromSlice 2 s
  | .prefixInformation => prefixOptFromSlice s
  | .redirectedHeader => redirectedOptFromSlice s
  | .mtu => mtuOptFromSlice s
  | .unknown => unknownOptFromSlice s

/-- one option handed out by the iterator: its kind and its bytes (`as_bytes()`); the window is
    kept by the iterator state. -/
structure NdpOpt where
  kind : NdpKind
  off : Nat
  bytes : Bytes
  deriving DecidableEq, Repr

/-- iterator state: the remaining option area and the offset of its first byte in the area the
    iterator was created from (`options` field of `NdpOptionsIterator`; the offset is bookkeeping for
    the printed windows, it does not influence any decision). -/
structure NdpIter where
  off : Nat
  options : Bytes
  deriving DecidableEq, Repr

/-- `NdpOptionsIterator::parse_next_option`: header, zero-length check, `split_at_checked`,
    per-type `from_slice`; on success the state advances to `rest`. -/
def ndpParseNext (it : NdpIter) : Except NdpErr (NdpOpt × NdpIter) :=
  match ndpHeaderFromSlice it.options with
  | .error e => .error e
  | .ok (t, u) =>
    if u = 0 then .error (.zeroLength t)
    else if u * 8 > it.options.length then
      .error (.unexpectedEndOfSlice t (u * 8) it.options.length)
    else
      match ndpOptFromSlice (ndpKindOfType t) (it.options.take (u * 8)) with
      | .error e => .error e
      | .ok () =>
        .ok ({ kind := ndpKindOfType t, off := it.off, bytes := it.options.take (u * 8) },
             { off := it.off + u * 8, options := it.options.drop (u * 8) })

/-- `Iterator::next`: `None` on an empty area; after an error the area is replaced by `&[]`. -/
def ndpNext (it : NdpIter) : Option (Except NdpErr NdpOpt × NdpIter) :=
  if it.options.isEmpty then none
  else
    match ndpParseNext it with
    | .error e => some (.error e, { off := it.off + it.options.length, options := [] })
    | .ok (o, it') => some (.ok o, it')

/-- what a successful `parse_next_option` looks like. -/
theorem ndpParseNext_ok {it it' : NdpIter} {o : NdpOpt} (h : ndpParseNext it = .ok (o, it')) :
    2 ≤ it.options.length ∧ bAt it.options 1 ≠ 0 ∧ bAt it.options 1 * 8 ≤ it.options.length ∧
      o = { kind := ndpKindOfType (bAt it.options 0), off := it.off,
            bytes := it.options.take (bAt it.options 1 * 8) } ∧
      it' = { off := it.off + bAt it.options 1 * 8,
              options := it.options.drop (bAt it.options 1 * 8) } ∧
      ndpOptFromSlice (ndpKindOfType (bAt it.options 0)) (it.options.take (bAt it.options 1 * 8))
        = .ok () := by
  unfold ndpParseNext ndpHeaderFromSlice at h
  by_cases h2 : it.options.length < 2
  · simp [h2] at h
  · simp only [h2, if_false] at h
    by_cases hu : bAt it.options 1 = 0
    · simp [hu] at h
    · simp only [hu, if_false] at h
      by_cases hl : bAt it.options 1 * 8 > it.options.length
      · simp [hl] at h
      · simp only [hl, if_false] at h
        split at h
        · contradiction
        · rename_i hs
          simp only [Except.ok.injEq, Prod.mk.injEq] at h
          exact ⟨by omega, hu, by omega, h.1.symm, h.2.symm, hs⟩

/-- a successful step strictly shortens the remaining area (the length unit is non-zero). -/
theorem ndpNext_ok_lt {it it' : NdpIter} {o : NdpOpt} (h : ndpNext it = some (.ok o, it')) :
    it'.options.length < it.options.length := by
  unfold ndpNext at h
  split at h
  · contradiction
  · split at h
    · simp at h
    · rename_i o2 it2 hp
      simp only [Option.some.injEq, Prod.mk.injEq, Except.ok.injEq] at h
      obtain ⟨_, rfl⟩ := h
      obtain ⟨_, hu, hl, _, rfl, _⟩ := ndpParseNext_ok hp
      simp only [List.length_drop]
      omega

/-- the caller's loop `for item in iterator { … }`: the options handed out up to the end of the
    area or the first error.  Terminates because every successful step shortens the area. -/
def ndpRun (it : NdpIter) : List NdpOpt × Option NdpErr :=
  match h : ndpNext it with  -- `h` feeds the termination proof
  | none => ([], none)
  | some (.error e, _) => ([], some e)
  | some (.ok o, it') =>
    let r := ndpRun it'
    (o :: r.1, r.2)
termination_by it.options.length
decreasing_by exact ndpNext_ok_lt h

end EpModel.View
