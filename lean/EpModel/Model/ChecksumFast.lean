import EpModel.Model.Checksum
/-
  A linear-time evaluation of `Checksum.addSlice64` for the compiled driver.

  `addSlice64` is written like the Rust loop (`while 8 ≤ remaining length`), which on `List UInt8`
  recomputes the length in every step (quadratic; 0.3 s for a 64 KiB payload).  `addSlice64Fast`
  matches eight bytes at a time; `addSlice64_eq_fast` proves the two equal for every input and is
  registered with `@[csimp]`, so compiled code that mentions `addSlice64` (the C14 checksum entry
  points with payloads around 2^16 bytes) runs the fast version.  The theorems keep talking about
  `addSlice64`; nothing is assumed: the replacement is a kernel-checked equation.
-/
namespace EpModel.Checksum
open EpModel

def addSlice64Fast (s : Nat) : Bytes → Nat
  | b0 :: b1 :: b2 :: b3 :: b4 :: b5 :: b6 :: b7 :: rest =>
    addSlice64Fast (add8_64 s [b0, b1, b2, b3, b4, b5, b6, b7]) rest
  | r => tail64 s r

theorem addSlice64_eq_fast (s : Nat) (b : Bytes) : addSlice64 s b = addSlice64Fast s b := by
  fun_induction addSlice64Fast s b with
  | case1 s b0 b1 b2 b3 b4 b5 b6 b7 rest ih =>
    rw [addSlice64]
    simp only [List.length_cons]
    rw [if_pos (by omega)]
    simpa using ih
  | case2 s r hne =>
    rw [addSlice64]
    have : ¬ 8 ≤ r.length := by
      intro h
      match r, h with
      | b0 :: b1 :: b2 :: b3 :: b4 :: b5 :: b6 :: b7 :: rest, _ => exact hne _ _ _ _ _ _ _ _ _ rfl
    rw [if_neg this]

@[csimp] theorem addSlice64_csimp : @addSlice64 = @addSlice64Fast := by
  funext s b; exact addSlice64_eq_fast s b

/-- the same for the 32 bit accumulator (four bytes per step) -/
def addSlice32Fast (s : Nat) : Bytes → Nat
  | b0 :: b1 :: b2 :: b3 :: rest => addSlice32Fast (add4_32 s [b0, b1, b2, b3]) rest
  | r => tail32 s r

theorem addSlice32_eq_fast (s : Nat) (b : Bytes) : addSlice32 s b = addSlice32Fast s b := by
  fun_induction addSlice32Fast s b with
  | case1 s b0 b1 b2 b3 rest ih =>
    rw [addSlice32]
    simp only [List.length_cons]
    rw [if_pos (by omega)]
    simpa using ih
  | case2 s r hne =>
    rw [addSlice32]
    have : ¬ 4 ≤ r.length := by
      intro h
      match r, h with
      | b0 :: b1 :: b2 :: b3 :: rest, _ => exact hne _ _ _ _ _ rfl
    rw [if_neg this]

@[csimp] theorem addSlice32_csimp : @addSlice32 = @addSlice32Fast := by
  funext s b; exact addSlice32_eq_fast s b

end EpModel.Checksum
