import EpModel.Model.Checksum
/-
  A structurally recursive twin of `Checksum.addSlice64` (8 bytes per step by pattern matching
  instead of `8 ≤ b.length` / `take` / `drop`, which costs a list traversal per step) together
  with the proof that the two are the same function.  The `@[csimp]` lemma makes the *compiled*
  driver use the twin (65 535 byte payloads of the builder checks would otherwise take 0.5 s each);
  the logical definition used by the theorems stays `Checksum.addSlice64`.
-/
namespace EpModel.Checksum
open EpModel

def addSlice64Fast (s : Nat) : Bytes → Nat
  | a :: b :: c :: d :: e :: f :: g :: h :: rest =>
    addSlice64Fast (add8_64 s [a, b, c, d, e, f, g, h]) rest
  | r => tail64 s r

theorem addSlice64_short (s : Nat) (r : Bytes) (h : r.length < 8) : addSlice64 s r = tail64 s r := by
  rw [addSlice64]
  have : ¬ 8 ≤ r.length := by omega
  simp [this]

theorem addSlice64_eq_fast_apply (s : Nat) (b : Bytes) : addSlice64 s b = addSlice64Fast s b := by
  fun_induction addSlice64Fast s b with
  | case1 s a b c d e f g h rest ih =>
    rw [addSlice64]
    simp only [List.length_cons, Nat.le_add_left, ↓reduceIte, List.take_succ_cons, List.take_zero,
      List.drop_succ_cons, List.drop_zero]
    exact ih
  | case2 s r hne =>
    apply addSlice64_short
    match r with
    | [] | [_] | [_, _] | [_, _, _] | [_, _, _, _] | [_, _, _, _, _] | [_, _, _, _, _, _]
    | [_, _, _, _, _, _, _] => simp
    | a :: b :: c :: d :: e :: f :: g :: h :: rest => exact absurd rfl (hne a b c d e f g h rest)

@[csimp] theorem addSlice64_eq_fast : @addSlice64 = @addSlice64Fast := by
  funext s b; exact addSlice64_eq_fast_apply s b

end EpModel.Checksum
