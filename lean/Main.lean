/- epdrv: one operation per input line (tab separated), one result line per operation.
   Operation names are `<family>.<name>` (run by both sides), `spec.<family>.<name>` (reference
   semantics, Lean only) or `impl.<family>.<name>` (implementation only, ignored here). -/
import EpModel.Driver.Ck
import EpModel.Driver.Bf
import EpModel.Driver.Opt
import EpModel.Driver.Ext
import EpModel.Driver.Frag
import EpModel.Driver.Io
import EpModel.Driver.View
import EpModel.Driver.Enc
import EpModel.Driver.Set
import EpModel.Driver.Build
import EpModel.Driver.Dec
open EpModel.Driver

def dispatch (op : String) (args : List String) : String :=
  let parts := op.splitOn "."
  let fam := match parts with
    | "spec" :: f :: _ => f
    | f :: _ => f
    | [] => ""
  let r : Option String :=
    match fam with
    | "ck" => Ck.run op args
    | "bf" => Bf.run op args
    | "opt" => Opt.run op args
    | "ext" => Ext.run op args
    | "frag" => Frag.run op args
    | "io" => Io.run op args
    | "view" => View.run op args
    | "enc" => Enc.run op args
    | "set" => Set.run op args
    | "build" => Build.run op args
    | "dec" => Dec.run op args
    | _ => none
  match r with
  | some s => s
  | none => "bad-op"

partial def loop (h : IO.FS.Stream) (out : IO.FS.Stream) : IO Unit := do
  let line ← h.getLine
  if line.isEmpty then return ()
  let line := if line.endsWith "\n" then (line.dropEnd 1).toString else line
  match line.splitOn "\t" with
  | op :: args => out.putStrLn (dispatch op args)
  | [] => out.putStrLn "bad-op"
  loop h out

def main : IO Unit := do
  let out ← IO.getStdout
  loop (← IO.getStdin) out
  out.flush
