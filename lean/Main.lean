import EpModel.Driver.Ck
import EpModel.Driver.SpecOps
/- epdrv: one operation per input line (tab separated), one result line per operation. -/
open EpModel.Driver

def dispatch (op : String) (args : List String) : String :=
  let fam := (op.splitOn ".").headD ""
  let r : Option String :=
    match fam with
    | "ck" => Ck.run op args
    | "spec" => SpecOps.run op args
    | _ => none
  match r with
  | some s => s
  | none => "bad-op"

partial def loop (h : IO.FS.Stream) (out : IO.FS.Stream) : IO Unit := do
  let line ← h.getLine
  if line.isEmpty then return ()
  let line := if line.endsWith "\n" then (line.dropEnd 1).toString else line
  match line.splitOn "\t" with
  | op :: args => out.putStrLn (dispatch op args)
  | [] => out.putStrLn "bad-op"
  loop h out

def main : IO Unit := do
  let out ← IO.getStdout
  loop (← IO.getStdin) out
  out.flush
