-- Root of the `EpModel` library: model, spec, lemmas, drivers, property theorems.
-- (every module that must be built by `lake build EpModel` is imported here)
import EpModel.Model.Basic
import EpModel.Model.Checksum
import EpModel.Model.ViewBasic
import EpModel.Model.Icmp
import EpModel.Model.Ndp
import EpModel.Model.Igmp
import EpModel.Model.ArpView
import EpModel.Model.ViewAbs
import EpModel.Spec.ViewData
import EpModel.Spec.IcmpTables
import EpModel.Spec.NdpFormat
import EpModel.Spec.IgmpArpFormat
import EpModel.Lemmas.View
import EpModel.Driver.Ck
import EpModel.Driver.Bf
import EpModel.Driver.Opt
import EpModel.Driver.Ext
import EpModel.Driver.Frag
import EpModel.Driver.Io
import EpModel.Driver.View
import EpModel.Driver.Enc
import EpModel.Driver.Set
import EpModel.Driver.Build
import EpModel.Driver.Dec
import EpModel.Props.C09
import EpModel.Props.C17
