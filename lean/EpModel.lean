-- Root of the `EpModel` library: model, spec, lemmas, drivers, property theorems.
-- (every module that must be built by `lake build EpModel` is imported here)
import EpModel.Model.Basic
import EpModel.Model.Checksum
import EpModel.Driver.Ck
import EpModel.Driver.Bf
import EpModel.Driver.Opt
import EpModel.Driver.Ext
import EpModel.Driver.Frag
import EpModel.Driver.Io
import EpModel.Driver.View
import EpModel.Driver.Enc
import EpModel.Driver.EncLink
import EpModel.Driver.EncNet
import EpModel.Driver.Set
import EpModel.Driver.Build
import EpModel.Driver.Dec
import EpModel.Model.Codec.LinkCommon
import EpModel.Model.Codec.LinkEth
import EpModel.Model.Codec.LinkArp
import EpModel.Model.Codec.TpUdpTcp
import EpModel.Model.Codec.TpIcmp
import EpModel.Model.Codec.TpIgmp
import EpModel.Lemmas.CodecLink
import EpModel.Lemmas.CodecLinkBits
import EpModel.Props.C08
import EpModel.Props.C09
