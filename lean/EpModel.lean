-- Root of the `EpModel` library: model, spec, lemmas, drivers, property theorems.
-- (every module that must be built by `lake build EpModel` is imported here)
import EpModel.Model.Basic
import EpModel.Model.Checksum
import EpModel.Driver.Ck
import EpModel.Driver.Bf
import EpModel.Driver.Opt
import EpModel.Driver.Ext
import EpModel.Driver.Frag
import EpModel.Driver.Io
import EpModel.Driver.View
import EpModel.Driver.Enc
import EpModel.Driver.Set
import EpModel.Driver.Build
import EpModel.Driver.Dec
import EpModel.Props.C09
import EpModel.Props.C12
