-- Root of the `EpModel` library: model, spec, lemmas, property theorems.
import EpModel.Model.Basic
import EpModel.Model.Checksum
import EpModel.Driver.Ck
import EpModel.Driver.SpecOps
import EpModel.Props.C09
